"""C18 — counterfactual-graph construction (make_counterfactual_graph) preserves the event's probability.

Correspondence: `y0.algorithm.identify.cg.make_counterfactual_graph` vs the Lean model `Y0.Cf.makeCounterfactualGraph`
(Y0/Model/Cg.lean), under EVERY iteration order of the `worlds` set (<= 3 worlds: all permutations).
Oracle (from the property statement): exact-rational functional SCMs with shared noise (harness/oracles/cf_fscm.py):
P(relabelled event) = P(event) in every sampled model; 'inconsistent' => P(event) = 0 in every sampled model;
returned graph acyclic, nodes = ancestors of the relabelled event, event variables are nodes.
"""
from __future__ import annotations

import json
import random

from .. import common as C
from .. import enc_expr as E
from .. import gen_graph as G
from ..oracles import cf_common as K
from ..oracles import cf_fscm as S

PROP = "C18"
RULE = ("random ADMGs with 1-5 nodes (quick: mostly <=4) x conjunctions of 1-4 counterfactual events over <=3 "
        "counterfactual worlds plus the factual world (shared and distinct subscripts, x / x' values, self-interventions, "
        "the same variable in several worlds with equal or different values); structured shapes (150 + 150 + 150 + 120 + 120 per quick run): a parent "
        "observed factually and intervened on in a world (shared_parent), two copies of an untouched variable (two_copies), 2-3 worlds that "
        "agree on do(ancestor) and differ in irrelevant interventions so that copies merge with EACH OTHER in the world-pair loop "
        "(world_family), a parent intervened in one world and observed in another (mirrored_parent), both copies of a parent observed "
        "(both_observed); 8% of the random stream are events that USE three counterfactual worlds, 8% 'twin' events (two worlds sharing 2-3 base "
        "variables), 30% of the random graphs are stored in a shuffled (non-topological) insertion order, edge-less random graphs are mostly "
        "re-drawn; thorough adds 400 six-node graphs with binary variables and up to 5 conjuncts; the paper examples (Shpitser-Pearl "
        "fig. 9, Tikka fig. 2) and all past witnesses first; a malformed stream (cyclic graph, event variable outside "
        "the graph). Every case is run under every iteration order of the worlds. A case is non-trivial when the event "
        "has >= 2 conjuncts, at least one counterfactual world, the graph has an edge, and the construction merged at "
        "least one node pair or reported 'inconsistent'.")
ASSUMPTIONS = [
    "the probability clauses are theorems about the model (Props/C18.lean cg_prob): for every functional SCM compatible with "
    "the graph (Spec/Fscm.lean: finitely many independent exogenous variables with rational pmfs, mechanisms read parents in G, "
    "noise shared only along bidirected edges; latents with parents and continuous variables are outside the class), "
    "P(event') = P(event) and 'inconsistent' => P(event) = 0. No side condition on the processing order is left: cg_prob is "
    "about the order the model of topological_sort computes (Props/C14 topologicalSort_spec: a linear extension, hence "
    "parents-first for every compatible model)",
    "the theorems are about the hand-written model; that the model is cg.py is the correspondence check of this run "
    "(every order of the worlds; sampling, not proof); the exact evaluation on sampled functional SCMs is an independent "
    "second line (it is what found the NetworkXError defect ce3041e)",
    "Python iterates over `worlds` (a set of frozensets): modelled as a list in an explicit order; every theorem holds for "
    "every order; the harness forces the real code through every permutation (cg.extract_interventions patched to return an "
    "ordered list) and also runs it unpatched",
    "the input graph is a graph over plain variables without self-loop edges (the model's input type is MG Name); graphs whose "
    "nodes are counterfactual variables raise TypeError in the real code and are outside the model",
    "Spec/Fscm.lean (the definition of the probability of a counterfactual event that the theorems are about) and the Python "
    "oracle are two independent implementations of the same semantics; they are compared exactly on random models and events "
    "on every run (cases of kind 'spec')",
]
EXHAUSTIVE = {"quick": False, "thorough": True}   # thorough: every graph on <=2 nodes x every event with <=2 conjuncts
LEANCHECK_MODULES = ["Y0.Model.Cg", "Y0.Props.C18"]

X, W, Y, D, Z = 3, 2, 4, 0, 5   # names chosen so that int order == alphabetical order D < W < X < Y < Z
FIG9A = {"nodes": [X, W, Y, D, Z], "di": [[X, W], [W, Y], [D, Z], [Z, Y]], "bi": [[X, Y]]}
TIKKA2 = {"nodes": [X, Z, Y], "di": [[X, Z], [X, Y], [Z, Y]], "bi": [[X, Z]]}
CHAIN = {"nodes": [D, Z, Y], "di": [[D, Z], [Z, Y]], "bi": []}
v = K.mkvar

CORPUS = [
    # Shpitser & Pearl fig. 9: P(y_x, x', z_d, d)
    {"g": FIG9A, "event": [[v(Y, [(X, "m")]), "m"], [v(X), "p"], [v(Z, [(D, "m")]), "m"], [v(D), "m"]]},
    {"g": FIG9A, "event": [[v(Y, [(X, "p"), (Z, "m")]), "p"], [v(X), "m"]]},
    {"g": CHAIN, "event": [[v(Z, [(D, "m")]), "m"], [v(Z), "p"], [v(D), "m"]]},            # inconsistent
    {"g": TIKKA2, "event": [[v(Y, [(X, "m")]), "m"], [v(Z, [(X, "m")]), "m"], [v(X), "p"]]},
    {"g": {"nodes": [0, 1], "di": [[0, 1]], "bi": []}, "event": [[v(1, [(0, "m")]), "m"], [v(1, [(0, "p")]), "p"]]},
    # witness: a self-intervened event variable disappeared from the graph (NetworkXError before the fix)
    {"g": {"nodes": [0, 1], "di": [[1, 0]], "bi": []}, "event": [[v(0, [(1, "m")]), "m"], [v(1), "m"], [v(1, [(1, "m")]), "m"]]},
    {"g": {"nodes": [0, 1], "di": [[1, 0]], "bi": []}, "event": [[v(0, [(1, "m")]), "m"], [v(1), "p"], [v(1, [(1, "m")]), "p"]]},
    # malformed
    {"g": {"nodes": [0, 1], "di": [[0, 1], [1, 0]], "bi": []}, "event": [[v(1, [(0, "m")]), "m"]], "malformed": "cyclic"},
    {"g": {"nodes": [0, 1], "di": [[0, 1]], "bi": []}, "event": [[v(7, [(0, "m")]), "m"]], "malformed": "outside"},
]


def shared_parent_case(rng: random.Random):
    """structured shape: a variable X observed in the factual world and intervened on (usually to the SAME value) in a
    counterfactual world, no bidirected edge at X, >= 2 children that are ancestors of the event (the children of X merge one
    after the other and X @ w is a parent that only the eliminated copies have); optionally a second intervened parent Z, a
    common grandchild, bidirected edges away from X"""
    k = rng.choice([2, 2, 3])
    x, kids = 0, list(range(1, 1 + k))
    nodes, di, bi = [x] + kids, [[x, c] for c in kids], []
    nxt = 1 + k
    z = None
    if rng.random() < 0.6:
        z = nxt
        nxt += 1
        nodes.append(z)
        di += [[z, c] for c in kids if rng.random() < 0.7] or [[z, kids[0]]]
    z2 = None
    if z is not None and rng.random() < 0.3:      # a third parent of the children (three differing parent pairs at merge time)
        z2 = nxt
        nxt += 1
        nodes.append(z2)
        di += [[z2, c] for c in kids]
    y = None
    if rng.random() < 0.5:
        y = nxt
        nxt += 1
        nodes.append(y)
        di += [[c, y] for c in kids[:2]]
    for a in nodes:
        for b in nodes:
            if a < b and x not in (a, b) and rng.random() < 0.12:
                bi.append([a, b])
    sx = rng.choice(["m", "p"])
    world = [(x, sx if rng.random() < 0.85 else ("p" if sx == "m" else "m"))]
    if z is not None and rng.random() < 0.7:
        world.append((z, rng.choice(["m", "p"])))
    ev = [[K.mkvar(x), sx]]
    if z2 is not None:
        s2 = rng.choice(["m", "p"])
        world.append((z2, s2))
        if rng.random() < 0.7 and not any(z2 in e for e in bi):    # observed at the value it is set to (or, rarely, at the other one)
            ev.append([K.mkvar(z2), s2 if rng.random() < 0.8 else ("p" if s2 == "m" else "m")])
    targets = kids if y is None or rng.random() < 0.5 else [y] + [c for c in kids if rng.random() < 0.5]
    for t in targets:
        ev.append([K.mkvar(t, world), rng.choice(["m", "p"])])
    if z is not None and rng.random() < 0.3:
        ev.append([K.mkvar(z), rng.choice(["m", "p"])])
    rng.shuffle(nodes)
    return {"g": {"nodes": nodes, "di": di, "bi": bi}, "event": K.sort_event(ev), "seed": rng.randrange(1 << 30)}


def two_copies_case(rng: random.Random):
    """structured shape: copies V@w1, V@w2 of a variable V whose ancestors no world touches (so both are the same random
    variable as the factual V, which is usually NOT in the event), required to take equal or different values"""
    n_anc = rng.choice([0, 1, 2])
    anc = list(range(n_anc))
    v_ = n_anc
    others = [n_anc + 1, n_anc + 2] + ([n_anc + 3] if rng.random() < 0.4 else [])
    nodes = anc + [v_] + others
    di = [[a, v_] for a in anc] + [[a, b] for a in anc for b in anc if a < b and rng.random() < 0.5]
    di += [[v_, o] for o in others if rng.random() < 0.5]
    bi = [[a, b] for a in nodes for b in nodes if a < b and rng.random() < 0.15]
    w1 = [(others[0], rng.choice(["m", "p"]))]
    w2 = [(others[1], rng.choice(["m", "p"]))] + ([(others[0], rng.choice(["m", "p"]))] if rng.random() < 0.3 else [])
    val = rng.choice(["m", "p"])
    ev = [[K.mkvar(v_, w1), val], [K.mkvar(v_, w2), val if rng.random() < 0.4 else ("p" if val == "m" else "m")]]
    if rng.random() < 0.25:
        ev.append([K.mkvar(v_), rng.choice(["m", "p"])])
    for o in others:
        if rng.random() < 0.3:
            ev.append([K.mkvar(o, rng.choice([w1, w2, []])), rng.choice(["m", "p"])])
    seen, ev2 = set(), []
    for var, x in ev:
        if C.enc(var) not in seen:
            seen.add(C.enc(var))
            ev2.append([var, x])
    rng.shuffle(nodes)
    return {"g": {"nodes": nodes, "di": di, "bi": bi}, "event": K.sort_event(ev2), "seed": rng.randrange(1 << 30)}


def world_family_case(rng: random.Random):
    """structured shape: 2-3 counterfactual worlds that agree on an intervention do(A = a) on an ancestor A of V and differ only in
    interventions on variables that are NOT ancestors of V: the copies V@w_i are the same random variable as each other but (A not being
    observed at a) NOT the same as the factual V, so they merge with each other in the world-pair loop, not in the factual loop.  The
    event mentions V in two of the worlds (equal or different values) and something else in the third, so that a value reaches a
    kept copy only through an earlier relabelling."""
    k = rng.choice([2, 3, 3])
    a, v_ = 0, 1
    nodes, di, bi = [a, v_], [], []
    nxt = 2
    mid = None
    if rng.random() < 0.35:      # A -> M -> V
        mid = nxt
        nxt += 1
        nodes.append(mid)
        di += [[a, mid], [mid, v_]]
    else:
        di.append([a, v_])
    irr = []
    for _ in range(k):
        irr.append(nxt)
        nodes.append(nxt)
        r = rng.random()
        if r < 0.35:
            di.append([v_, nxt])         # a child of V
        elif r < 0.5:
            di.append([a, nxt])          # another child of A
        nxt += 1
    y = None
    if rng.random() < 0.4:
        y = nxt
        nxt += 1
        nodes.append(y)
        di.append([v_, y])
    for p in nodes:
        for q in nodes:
            if p < q and rng.random() < 0.1:
                bi.append([p, q])
    sa = rng.choice(["m", "p"])
    worlds = []
    for i in range(k):
        w = [(a, sa if rng.random() < 0.9 else ("p" if sa == "m" else "m")), (irr[i], rng.choice(["m", "p"]))]
        if rng.random() < 0.15:
            w = w[:1] if not any(x == tuple(w[:1]) for x in worlds) else w
        worlds.append(tuple(sorted(w)))
    worlds = list(dict.fromkeys(worlds))
    val = rng.choice(["m", "p"])
    other = "p" if val == "m" else "m"
    ev = []
    order = list(range(len(worlds)))
    rng.shuffle(order)
    carriers = order[:2]
    for j, wi in enumerate(order):
        w = worlds[wi]
        if wi in carriers:
            ev.append([K.mkvar(v_, w), val if (j == 0 or rng.random() < 0.5) else other])
            if y is not None and rng.random() < 0.5:
                ev.append([K.mkvar(y, w), rng.choice(["m", "p"])])
        else:
            t = rng.choice([x for x in ([y] if y is not None else []) + irr + ([mid] if mid is not None else []) if x not in {n for n, _ in w}] or [v_])
            ev.append([K.mkvar(t, w), rng.choice(["m", "p"])])
    if rng.random() < 0.2:
        ev.append([K.mkvar(a), sa if rng.random() < 0.7 else ("p" if sa == "m" else "m")])
    if rng.random() < 0.15:
        ev.append([K.mkvar(v_), rng.choice(["m", "p"])])
    seen, ev2 = set(), []
    for var, x in ev:
        if C.enc(var) not in seen:
            seen.add(C.enc(var))
            ev2.append([var, x])
    rng.shuffle(nodes)
    return {"g": {"nodes": nodes, "di": di, "bi": bi}, "event": K.sort_event(ev2), "seed": rng.randrange(1 << 30)}


def mirrored_parent_case(rng: random.Random):
    """structured shape (the mirrored case of Lemma 24's parent test, second copy observed / first copy intervened): Y has the parents X
    and Z; world w1 = do(X = s, Z = t), world w2 = do(Z = t) [+ an irrelevant intervention]; the FACTUAL X is observed (no bidirected
    edge at X), so X@w2 merges into it and Y@w2 keeps the observed parent X while Y@w1 has the intervened parent X@w1: Y@w1 and Y@w2
    are the same variable iff the observed value of X is s (and Z is forced to the same value in both worlds)."""
    x, z, y = 0, 1, 2
    nodes, di, bi = [x, z, y], [[x, y], [z, y]], []
    nxt = 3
    extra = {}
    for name, p in (("a", 0.3), ("c", 0.4), ("q", 0.4)):
        if rng.random() < p:
            extra[name] = nxt
            nodes.append(nxt)
            nxt += 1
    if "a" in extra:
        di.append([extra["a"], x])
    if "c" in extra:
        di.append([y, extra["c"]])
    if "q" in extra and rng.random() < 0.5:
        di.append([y, extra["q"]])
    for p in nodes:
        for q in nodes:
            if p < q and x not in (p, q) and rng.random() < 0.12:
                bi.append([p, q])
    s = rng.choice(["m", "p"])
    o = "p" if s == "m" else "m"
    sz = rng.choice(["m", "p"])
    w1 = [(x, s), (z, sz)]
    w2 = [(z, sz if rng.random() < 0.85 else ("p" if sz == "m" else "m"))]
    if "q" in extra and rng.random() < 0.6:
        w2.append((extra["q"], rng.choice(["m", "p"])))
    ev = [[K.mkvar(x), s if rng.random() < 0.6 else o]]
    t = extra["c"] if "c" in extra and rng.random() < 0.4 else y
    v1 = rng.choice(["m", "p"])
    ev.append([K.mkvar(t, w1), v1])
    ev.append([K.mkvar(t, w2), v1 if rng.random() < 0.5 else ("p" if v1 == "m" else "m")])
    if "a" in extra and rng.random() < 0.3:
        ev.append([K.mkvar(extra["a"]), rng.choice(["m", "p"])])
    rng.shuffle(nodes)
    return {"g": {"nodes": nodes, "di": di, "bi": bi}, "event": K.sort_event(ev), "seed": rng.randrange(1 << 30)}


def both_observed_case(rng: random.Random):
    """structured shape: a parent X of Y whose two copies (factual and X@w, or X@w1 and X@w2; w = do(Z) with Z a parent of X, so the copies
    do NOT merge) are BOTH in the event, with equal or different values; Y's copies in the same two worlds are in the event as well: they
    are the same variable iff the two observed values of X are equal (and Y's other parents agree)."""
    z, x, y = 0, 1, 2
    nodes, di, bi = [z, x, y], [[z, x], [x, y]], []
    nxt = 3
    p2 = c = None
    if rng.random() < 0.35:       # a second parent of Y, untouched by the worlds
        p2 = nxt
        nxt += 1
        nodes.append(p2)
        di.append([p2, y])
    if rng.random() < 0.35:
        c = nxt
        nxt += 1
        nodes.append(c)
        di.append([y, c])
    for p in nodes:
        for q in nodes:
            if p < q and rng.random() < 0.1 and (p, q) != (z, x):
                bi.append([p, q])
    s = rng.choice(["m", "p"])
    o = "p" if s == "m" else "m"
    if rng.random() < 0.7:
        wa, wb = (), ((z, s),)
    else:
        wa, wb = ((z, s),), ((z, o),)
    vx = rng.choice(["m", "p"])
    ev = [[K.mkvar(x, wa), vx], [K.mkvar(x, wb), vx if rng.random() < 0.55 else ("p" if vx == "m" else "m")]]
    t = c if c is not None and rng.random() < 0.4 else y
    vy = rng.choice(["m", "p"])
    if rng.random() < 0.8:
        ev.append([K.mkvar(t, wa), vy])
    ev.append([K.mkvar(t, wb), vy if rng.random() < 0.5 else ("p" if vy == "m" else "m")])
    if p2 is not None and rng.random() < 0.3:
        ev.append([K.mkvar(p2), rng.choice(["m", "p"])])
    rng.shuffle(nodes)
    return {"g": {"nodes": nodes, "di": di, "bi": bi}, "event": K.sort_event(ev), "seed": rng.randrange(1 << 30)}


def three_world_event(rng: random.Random, g):
    """an event that USES three counterfactual worlds: one conjunct per world first (then up to two more, possibly factual)"""
    nodes = G.all_nodes(g)
    worlds = []
    for _ in range(12):
        w = K.rand_world(rng, nodes)
        if worlds and rng.random() < 0.4:     # same variables as an earlier world, other values / one more variable
            w0 = rng.choice(worlds)
            w = tuple(sorted({n: ("p" if rng.random() < 0.5 else "m") for n, _ in w0}.items()))
            if rng.random() < 0.4:
                extra = [n for n in nodes if n not in {a for a, _ in w}]
                if extra:
                    w = tuple(sorted(w + ((rng.choice(extra), rng.choice(["m", "p"])),)))
        if w and w not in worlds:
            worlds.append(w)
        if len(worlds) == 3:
            break
    ev = {}
    for w in worlds + [rng.choice(worlds + [()]) for _ in range(rng.choice([0, 1, 1, 2]))]:
        cand = [v_ for v_ in nodes if v_ not in {n for n, _ in w}] or nodes
        var = K.mkvar(rng.choice(cand), w)
        ev.setdefault(C.enc(var), [var, "p" if rng.random() < 0.35 else "m"])
    return K.sort_event(list(ev.values()))


def twin_event(rng: random.Random, g):
    """'twin' events: two worlds (a counterfactual one and the factual world / a second counterfactual world) that share two or
    three base variables: V@w and V@w' for every V of a set B, equal or different values"""
    nodes = G.all_nodes(g)
    w = K.rand_world(rng, nodes)
    r = rng.random()
    if r < 0.5:
        w2 = ()
    elif r < 0.75:
        w2 = tuple((n, "p" if s_ == "m" else "m") if rng.random() < 0.7 else (n, s_) for n, s_ in w)
    else:
        w2 = K.rand_world(rng, nodes)
    if w2 == w:
        w2 = ()
    touched = {n for n, _ in w} | {n for n, _ in w2}
    pool = [v_ for v_ in nodes if v_ not in touched] or nodes
    base = rng.sample(pool, min(len(pool), rng.choice([2, 2, 3])))
    ev = {}
    for b in base:
        val = "p" if rng.random() < 0.35 else "m"
        for ww in (w, w2):
            var = K.mkvar(b, ww)
            ev.setdefault(C.enc(var), [var, val if rng.random() < 0.6 else ("p" if val == "m" else "m")])
    return K.sort_event(list(ev.values()))


def cases(rng: random.Random, tier: str):
    out = [dict(c, seed=1000 + i) for i, c in enumerate(CORPUS)]
    out += K.load_corpus("C18")
    out += [shared_parent_case(rng) for _ in range(150 if tier == "quick" else 600)]
    out += [two_copies_case(rng) for _ in range(150 if tier == "quick" else 600)]
    # shapes that the mutation campaign C (tools/mutants_C.md) showed the random stream does not produce often enough
    out += [world_family_case(rng) for _ in range(150 if tier == "quick" else 600)]
    out += [mirrored_parent_case(rng) for _ in range(120 if tier == "quick" else 500)]
    out += [both_observed_case(rng) for _ in range(120 if tier == "quick" else 500)]
    n = 2500 if tier == "quick" else 9000
    for _ in range(n):
        big = rng.random() < (0.15 if tier == "quick" else 0.3)
        g = K.rand_admg(rng, 1, 5 if big else 4)
        for _k in range(3):      # about a third of the random graphs had no edge at all: most of those are drawn again
            if g["di"] or g["bi"] or rng.random() < 0.25:
                break
            g = K.rand_admg(rng, 2, 5 if big else 4)
        r3 = rng.random()
        if r3 < 0.08 and len(G.all_nodes(g)) >= 2:
            ev = three_world_event(rng, g)
        elif r3 < 0.16 and len(G.all_nodes(g)) >= 2:
            ev = twin_event(rng, g)
        else:
            ev = K.rand_event(rng, g, max_worlds=3, max_items=4)
        if rng.random() < 0.3:      # graphs stored in a NON-topological insertion order (seeded/C07c walks graph.nodes())
            g = dict(g, nodes=rng.sample(G.all_nodes(g), len(G.all_nodes(g))))
        c = {"g": g, "event": ev, "seed": rng.randrange(1 << 30)}
        r = rng.random()
        if r < 0.02:
            nodes = G.all_nodes(g)
            if len(nodes) >= 2:
                c["g"] = dict(g, di=g["di"] + [[e[1], e[0]] for e in g["di"][:1]])
                c["malformed"] = "cyclic" if g["di"] else None
        elif r < 0.04:
            c["event"] = K.sort_event(ev + [[K.mkvar(9, ev[0][0][4]), "m"]])
            c["malformed"] = "outside"
        out.append(c)
    if tier == "thorough":
        out += K.exhaustive_event_cases(2, 2)
        # a slice beyond the caps of the quick tier: six nodes, up to five conjuncts, binary variables (the noise space stays small)
        for _ in range(400):
            g = K.rand_admg(rng, 6, 6)
            ev = rng.choice([three_world_event, twin_event, lambda r_, g_: K.rand_event(r_, g_, max_worlds=3, max_items=5)])(rng, g)
            out.append({"g": dict(g, nodes=rng.sample(G.all_nodes(g), len(G.all_nodes(g)))), "event": ev, "seed": rng.randrange(1 << 30),
                        "binary": True})
    # the Python oracle against the Lean SPECIFICATION of "probability of a counterfactual event" (Y0/Spec/Fscm.lean)
    for _ in range(40 if tier == "quick" else 400):
        g = K.rand_admg(rng, 1, 4)
        out.append({"kind": "spec", "g": g, "event": K.rand_event(rng, g, max_worlds=3, max_items=3), "seed": rng.randrange(1 << 30)})
    return out


# ------------------------------------------------------------------------------------------ real code


def _run_real(case, strategy):
    import networkx as nx
    from y0.algorithm.identify.cg import make_counterfactual_graph

    graph = G.to_nx_mixed(case["g"])
    event = K.dec_event(case["event"])
    try:
        with K.fixed_world_order(strategy):
            cfg, nev = make_counterfactual_graph(graph, event)
    except (nx.NetworkXError, nx.NetworkXUnfeasible, nx.NodeNotFound, KeyError, ValueError, TypeError, RuntimeError) as e:
        return ["err"], type(e).__name__
    if nev is None:
        return ["ok", "inconsistent"], None
    return ["ok", K.enc_nx_cf_graph(cfg), K.canon_event(K.enc_event(nev))], None


# ------------------------------------------------------------------------------------------ oracle


def _in_domain(case):
    """the property's quantifier: acyclic ADMG, event variables and subscripts inside the graph, consistent subscripts"""
    g = case["g"]
    nodes = set(G.all_nodes(g))
    try:
        S.topo_order(nodes, [tuple(e) for e in g["di"]])
    except ValueError:
        return False
    for var, _ in case["event"]:
        if int(var[1]) not in nodes or any(int(n) not in nodes for n, _ in var[4]):
            return False
    return S.consistent_subscripts(case["event"]) and bool(case["event"])


def _structure(res):
    """clause 3 of the property on one returned (graph, event): acyclic, exactly the ancestors, event subset nodes"""
    _, nodes, di, bi = res[1]
    key = lambda x: json.dumps(x)   # noqa: E731
    ns = {key(n) for n in nodes}
    ev = {key(var) for var, _ in res[2]}
    if not ev <= ns:
        return "a relabelled event variable is not a node of the returned graph"
    for u, w in list(di) + list(bi):
        if key(u) not in ns or key(w) not in ns:
            return "an edge endpoint is not a node"
    pa = {}
    for u, w in di:
        pa.setdefault(key(w), set()).add(key(u))
    anc, todo = set(ev), list(ev)
    while todo:
        x = todo.pop()
        for p in pa.get(x, ()):
            if p not in anc:
                anc.add(p)
                todo.append(p)
    if anc != ns:
        return "the returned graph is not exactly the ancestors of the relabelled event"
    # acyclic: Kahn
    indeg = {n: 0 for n in ns}
    for u, w in di:
        indeg[key(w)] += 1
    todo = [n for n in ns if indeg[n] == 0]
    seen = 0
    while todo:
        x = todo.pop()
        seen += 1
        for u, w in di:
            if key(u) == x:
                indeg[key(w)] -= 1
                if indeg[key(w)] == 0:
                    todo.append(key(w))
    if seen != len(ns):
        return "the returned graph has a directed cycle"
    return None


def _semantic(case, res, exc=None):
    g = {"nodes": G.all_nodes(case["g"]), "di": case["g"]["di"], "bi": case["g"]["bi"]}
    ev = case["event"]
    if res == ["err"]:
        return f"construction raised {exc}: neither (graph, event) nor 'inconsistent' for an event in the property's domain"
    mc = 2 if case.get("binary") else 3
    if res[1] == "inconsistent":
        w = S.check_zero(g, ev, case.get("seed", 0), max_card=mc)
        return None if w is None else f"'inconsistent' reported for an event of positive probability: {w}"
    s = _structure(res)
    if s:
        return s
    s = S.check_parents_represented(g, ev, res[1][1], res[1][2], case.get("seed", 0), max_card=mc)
    if s:
        return s
    new_ev = [[[x if not isinstance(x, list) else x for x in var], val] for var, val in res[2]]
    w = S.check_same_probability(g, ev, new_ev, case.get("seed", 0), max_card=mc)
    return None if w is None else f"relabelled event {new_ev} has another probability than the event: {w}"


def _spec_model(case):
    rng = random.Random(case["seed"])
    g = case["g"]
    m = S.Fscm(G.all_nodes(g), g["di"], g["bi"], rng, max_card=rng.choice([2, 3]))
    return m, S.rand_nu(m, rng)


def run_python(case):
    if case.get("kind") == "spec":
        m, nu = _spec_model(case)
        p = m.prob(S.event_items(case["event"], nu))
        return {"out": ["prob", str(p.numerator), str(p.denominator)], "fail": None, "nontrivial": 0 < p < 1,
                "tags": {"spec_crosscheck": True}}
    strategies = K.strategies_for(case["event"])
    r0, exc0 = _run_real(case, None)
    by_order = []
    excs = {}
    for s in strategies:
        r, exc = _run_real(case, s)
        by_order.append(r)
        excs[json.dumps(r)] = exc
    if r0 not in by_order and K.n_worlds(case["event"]) <= 3:
        raise RuntimeError(f"unpatched result {r0} is not among the ordered runs {by_order}")
    fail = None
    dom = _in_domain(case)
    if dom:
        seen = []
        for r in [r0] + by_order:
            if r in seen:
                continue
            seen.append(r)
            f = _semantic(case, r, excs.get(json.dumps(r), exc0))
            if f:
                fail = f
                break
    distinct = []
    for r in by_order:
        if r not in distinct:
            distinct.append(r)
    ev = case["event"]
    merged = any(r[0] == "ok" and (r[1] == "inconsistent" or r[2] != K.canon_event(ev) or
                                   len(r[1][1]) < (1 + K.n_worlds(ev)) * len(G.all_nodes(case["g"]))) for r in by_order)
    nontrivial = dom and len(ev) >= 2 and K.n_worlds(ev) >= 1 and bool(case["g"]["di"] or case["g"]["bi"]) and \
        any(r[0] == "ok" and (r[1] == "inconsistent" or r[2] != K.canon_event(ev)) for r in by_order)
    tags = {"n_nodes": len(G.all_nodes(case["g"])), "n_worlds": K.n_worlds(ev), "n_conjuncts": len(ev),
            "outcome": "err" if r0 == ["err"] else ("inconsistent" if r0[1] == "inconsistent" else "graph"),
            "exception": exc0, "relabelled_or_pruned": merged, "order_dependent": len(distinct) > 1,
            "in_domain": dom, "has_bidirected": bool(case["g"]["bi"]),
            "self_intervention": any(int(var[1]) in {int(n) for n, _ in var[4]} for var, _ in ev)}
    return {"out": ["orders", by_order], "fail": fail, "nontrivial": bool(nontrivial), "tags": tags}


# ------------------------------------------------------------------------------------------ model side


def request(case):
    if case.get("kind") == "spec":
        m, nu = _spec_model(case)
        return C.enc(["cf", "fscm_prob", S.model_sexp(m), S.nu_sexp(nu), case["event"]])
    g = case["g"]
    gs = C.graph_sexp(g["nodes"], g["di"], g["bi"])
    return C.enc(["cf", "make_cg_all", gs, case["event"], [[r, k] for r, k in K.strategies_for(case["event"])]])


def _canon_one(rep):
    if rep[0] == "err":
        return ["err"]
    if rep[1] == "inconsistent":
        return ["ok", "inconsistent"]
    _, nodes, di, bi = rep[1]
    return ["ok", K.canon_cf_graph(nodes, di, bi), K.canon_event(rep[2])]


def canon_model(case, rep):
    if rep[0] != "ok":
        return ["model-error", rep]
    if case.get("kind") == "spec":
        return ["prob", rep[1], rep[2]]
    return ["orders", [_canon_one(r) for r in rep[1:]]]


def shrink(case):
    if case.get("kind") == "spec":
        return
    yield from K.shrink_event_case(case, keys=("event",))


def finding_key(case, res):
    return json.dumps(K.relabel_canonical(case, keys=("event",)), sort_keys=True)


MANIFEST = {
    "text": ("Proof. Lean theorems about the executable model of cg.py (Y0/Model/Cg.lean), for every graph, event and every "
             "iteration order of the worlds. Probability clauses (cg_prob): for EVERY functional SCM compatible with the graph "
             "and all base values, the relabelled event has the same probability as the original event and 'inconsistent' is "
             "returned only if that probability is 0; Lemma 24 of Shpitser-Pearl is proved for the test as coded "
             "(lemma24_of_test) from the structural equation of functional SCMs, with two invariants carried through the "
             "Lemma-24/25 merge loop (every parent of every un-intervened node is represented by a parent node of equal value; "
             "every prefix-restricted support of the event is unchanged). Structure: the construction is total on acyclic "
             "graphs, the returned graph is acyclic, its nodes are exactly the ancestors (inside it) of the relabelled event, "
             "every relabelled event variable is a node, every directed edge lies over an edge of the input graph. The former "
             "side condition of cg_prob (nodes are processed parents-first) is now proved from C14's topologicalSort_spec."),
    "note": ("Trusted: Lean kernel + the three standard axioms; the hand-written model tied to cg.py by differential testing "
             "under every order of the worlds set (sampling); Spec/Fscm.lean (functional SCMs with shared noise: the model class "
             "is discrete, independent root latents) is read, not verified, and is cross-checked against the independent Python "
             "evaluator on every run. One defect found and fixed (ce3041e)."),
    "technique": "Lean 4 theorems (loop invariants, structural equation, Lemma 24 for the coded test) + differential correspondence under all set-iteration orders + exact-rational functional-SCM oracle",
}
