"""C11 — the canonical form is a true normal form.

Oracle (direct reading of the property on the real code):
  idem : canonicalize(canonicalize(e, o), o) == canonicalize(e, o)            (object equality and str())
  perm : canonicalize(pi(e), o) == canonicalize(e, o) for a random presentation permutation pi
         (factor order, product nesting, children / parents order)
  seeds: the canonical forms of a batch of expressions, computed in FRESH interpreters under several PYTHONHASHSEEDs
         and with shuffled construction order of the set-valued fields, have identical encodings and identical str().
Correspondence: both canonical forms of each idem / perm case against the Lean model (Y0.Model.Canon).
"""
from __future__ import annotations

import json
import os
import random
import subprocess
import sys

from .. import common as C
from .. import enc_expr as X
from .. import forms as F
from .. import gen_expr as GE

PROP = "C11"
RULE = ("(a) structured stream over a common pool of factors (harness/gen_expr.py struct_*): compound fractions whose division "
        "cross-multiplies into x/x, x/1, 1/x, or leaves shared / repeated factors; equal numerator and denominator in "
        "different presentations; products that only appear after canonicalising a factor ((x*y)/1, sums of one-likes); "
        "factors tying on the first child name (P / PP / interventional / sums); leaves whose variables share a name across "
        "worlds; sums over joint leaves in every range mode; (b) expressions from the C10 generator (70% well-scoped, 30% "
        "wild: multi-world leaves, repeated names, Q-factors). Each with an explicit ordering covering its names (80%) or "
        "ordering=None (20%, recomputed at every call): idempotence (canonicalise twice), presentation invariance (random "
        "shuffle of factor order / product nesting / children and parents order, both sides canonicalised), and batches of "
        "40 expressions (random and structured) canonicalised in fresh interpreters under PYTHONHASHSEED in {0,1,2} (quick) "
        "or 16 seeds (thorough); (c) multi-world joints (gen_expr.struct_mw_*, appended): leaves whose children share a base "
        "variable across worlds / value marks under Sums in every relation between ranges and duplicated / single bases - "
        "idempotence, presentation invariance and one fresh-interpreter batch; (d) set-order sensitive shapes "
        "(gen_expr.struct_setorder: >= 3 sibling Sums over one summand with different multi-variable ranges, sibling leaves "
        "whose >= 2-element intervention sets differ, same-named counterfactual children with >= 2 subscripts each, 3-4 "
        "interventions / ranges, sums over multi-world joints) in process and in 2 (quick) / 6 (thorough) systematic "
        "fresh-interpreter batches, where the set-valued fields are now REALLY built in shuffled construction order "
        "(enc_expr's frozenset is rebound in the child); wide leaves (4-6 children, 3-4 parents, 3-4 interventions) and "
        "orderings covering only the event names / with counterfactual elements / with repeated elements. The branches reached on the real canonicaliser are counted as hit_* tags. A case is "
        "non-trivial when the expression contains a product with >=2 factors sharing their first child name, or a "
        "fraction, or a sum that simplifies, and the canonical form differs from the input.")
ASSUMPTIONS = [
    "argument FORMS (harness/forms.py; chosen deterministically per case, stored in the case, tagged form_*): the ordering handed to canonicalize as list / tuple (the declared Sequence) and as dict keys / generator / iterator / map (accepted by its consumer dsl.ensure_ordering; only forms that keep the caller's sequence, so that both calls of a case get 'the same ordering' whatever y0 does with it), plain variables as Variable objects, str names or mixed, positional or by keyword, no ordering as omitted / None / ordering=None -- independently for the two calls of a case (first / second canonicalisation, the two presentations), so 'identical objects under the same ordering' is also checked across forms of that ordering; in the fresh-interpreter batches the form is a function of the position in the batch (the same under every hash seed)",
    "hash seeds / construction order is a Python-runtime clause (R): decided by running fresh interpreters under several PYTHONHASHSEEDs, not by a theorem (the model represents sets as sorted lists)",
    "normal_form (idempotence + presentation invariance of the public entry point, explicit ordering or ordering=None recomputed at every call) is proved for ALL expressions; an explicit ordering is re-sorted by variable name by ensure_ordering: the hypothesis NameMonotone of the level-table lemmas, shown necessary by a counterexample",
    "presentation invariance is an equivalence (Present is symmetric): e has the canonical form a iff its presentation e' has; when canonicalize raises on e (Q-factor, uncovered name, zero denominator) it raises on every presentation, possibly with a different exception class, and nothing else is claimed",
    "the Lean theorems are about the hand-written model Y0.Model.Canon/Dsl of the code after the fix commits (incl. d517ad1: Sum.simplify returns a sum over a joint with several children on one base variable unchanged - such a sum is a canonical form, `IsCanon`, and normal_form covers it: the theorems never had a scoping hypothesis, multi-world joints were always inside); the tie to the Python is this run's correspondence check (sampling)",
    "cases where canonicalize raises on both presentations (uncovered name, Q-factor, zero denominator) are outside the property",
]
LEANCHECK_MODULES = ["Y0.Model.Dsl", "Y0.Model.Canon", "Y0.Props.C11"]
EXHAUSTIVE = {"quick": False, "thorough": False}

V = GE.plain


def P_(children, parents=()):
    return ["P", [V(c) if isinstance(c, int) else c for c in children], [V(p) if isinstance(p, int) else p for p in parents]]


def cf(name, ivs, star="n"):
    return ["v", name, star, "0", [list(i) for i in ivs]]


O3 = [V(0), V(1), V(2)]
CORPUS = [
    # F4: ties of the old sort key (0, first child name) kept input order
    {"kind": "perm", "e": ["prod", P_([0], [1]), P_([0], [2])], "e2": ["prod", P_([0], [2]), P_([0], [1])], "ordering": O3},
    {"kind": "perm", "e": ["prod", ["sum", [V(1)], P_([0], [1])], ["sum", [V(2)], P_([0], [2])]],
     "e2": ["prod", ["sum", [V(2)], P_([0], [2])], ["sum", [V(1)], P_([0], [1])]], "ordering": O3},
    # children sharing a name (two worlds): order of children must not matter
    {"kind": "perm", "e": ["P", [cf(2, [[0, "m"]]), cf(2, [[1, "m"]])], []], "e2": ["P", [cf(2, [[1, "m"]]), cf(2, [[0, "m"]])], []],
     "ordering": O3},
    # idempotence: a product that only appears after canonicalising a factor
    {"kind": "idem", "e": ["prod", P_([0]), ["frac", ["prod", P_([1]), P_([2])], "one"]], "ordering": O3},
    {"kind": "idem", "e": ["prod", P_([0]), ["frac", ["prod", P_([1]), P_([2])], ["sum", [V(1)], P_([1])]]], "ordering": O3},
    # idempotence: compound fractions collapse only after the division
    {"kind": "idem", "e": ["frac", P_([0]), ["frac", ["prod", P_([0]), P_([1])], P_([1])]], "ordering": O3},
    {"kind": "idem", "e": ["frac", P_([0]), ["frac", "one", P_([1])]], "ordering": O3},
    {"kind": "idem", "e": ["sum", [V(0), V(1)], P_([0])], "ordering": O3},
    {"kind": "idem", "e": ["frac", ["sum", [V(1)], P_([0, 1])], ["sum", [V(0), V(1)], P_([0, 1])]], "ordering": O3},
]


def _ordering_for(rng, e, n_names, p_none=0.2):
    """an explicit ordering covering the names of `e`, or None (the default: recomputed from the expression at each call)"""
    if rng.random() < p_none:
        return None
    names = sorted(set(GE.all_names(e)) | {n for n in range(n_names) if rng.random() < 0.5})
    rng.shuffle(names)
    return [V(n) for n in names]


def _gen(rng):
    ws = rng.random() < 0.7
    cfg = GE.GenCfg(n_names=rng.choice([3, 4, 4, 5]), max_depth=rng.choice([2, 3, 4, 4, 5, 5]), well_scoped=ws,
                    allow_q=not ws, p_star=0.2, p_world=0.3,
                    weights={"leaf": 3, "prod": 4, "sum": 3, "frac": 2.5, "one": 0.5, "zero": 0.2})
    return GE.gen_expr(rng, cfg), cfg


def _load_corpus():
    """corpus/Cxx/*.json (witnesses and examples; falls back to the inline list)"""
    d = C.VERIF / "corpus" / PROP
    files = sorted(d.glob("*.json")) if d.is_dir() else []
    if not files:
        return [dict(c) for c in CORPUS]
    return [json.loads(f.read_text()) for f in files]


def _struct(rng):
    nn = rng.choice([3, 4, 4, 5])
    e, lab = GE.struct_expr(rng, nn)
    return e, nn, lab


def structured_cases(rng: random.Random, n: int):
    """pool-based structured stream (gen_expr.struct_*): compound fractions whose division cross-multiplies into x/x,
    x/1, 1/x; equal numerator and denominator in different presentations; products that only appear after canonicalising
    a factor; factors tying on the first child name; variables sharing a name across worlds; repeated factors; Sums over
    joint leaves in every range mode.  Each once for idempotence and once against a presentation shuffle."""
    out = []
    # systematic head: every ratio target x flavour
    for target in ("xx", "x1", "1x", "shared", "repeat", "general"):
        for flavour in ("mixed", "samefirst", "worlds"):
            for _ in range(max(1, n // 400)):
                nn = rng.choice([3, 4, 4, 5])
                e, lab = GE.struct_ratio(rng, nn, flavour=flavour, target=target)
                o = _ordering_for(rng, e, nn)
                out.append({"kind": "idem", "e": e, "ordering": o, "gen": lab})
                out.append({"kind": "perm", "e": e, "e2": GE.present_shuffle(rng, e), "ordering": o, "gen": lab})
    # systematic: products of sibling factors that differ in one deep position (ties of any key that ignores it)
    for fam in GE.SIBLING_FAMILIES:
        for _ in range(max(1, n // 130)):
            nn = rng.choice([3, 4, 4, 5])
            e, lab = GE.struct_product(rng, nn, family=fam)
            o = _ordering_for(rng, e, nn)
            out.append({"kind": "perm", "e": e, "e2": GE.present_shuffle(rng, e), "ordering": o, "gen": lab})
            if rng.random() < 0.3:
                out.append({"kind": "idem", "e": e, "ordering": o, "gen": lab})
    while len(out) < n:
        e, nn, lab = _struct(rng)
        o = _ordering_for(rng, e, nn)
        if rng.random() < 0.45:
            out.append({"kind": "idem", "e": e, "ordering": o, "gen": lab})
        else:
            out.append({"kind": "perm", "e": e, "e2": GE.present_shuffle(rng, e), "ordering": o, "gen": lab})
    return out


def mw_cases(rng: random.Random, n: int):
    """multi-world joints (gen_expr.struct_mw_*: children sharing a base variable across worlds / value marks, under Sums in
    every relation between ranges and duplicated / single bases): idempotence and presentation invariance"""
    out = []
    for mode in GE.MW_MODES:
        for _ in range(max(1, n // 60)):
            nn = rng.choice([3, 4, 4, 5])
            e, lab = GE.struct_mw_sum(rng, nn, mode=mode, pop=rng.choice([None, None, GE.POPS[0]]))
            o = _ordering_for(rng, e, nn + 3)
            out.append({"kind": "idem", "e": e, "ordering": o, "gen": lab})
            out.append({"kind": "perm", "e": e, "e2": GE.present_shuffle(rng, e), "ordering": o, "gen": lab})
    while len(out) < n:
        nn = rng.choice([3, 4, 4, 5])
        e, lab = GE.struct_mw_expr(rng, nn)
        o = _ordering_for(rng, e, nn + 3)
        if rng.random() < 0.45:
            out.append({"kind": "idem", "e": e, "ordering": o, "gen": lab})
        else:
            out.append({"kind": "perm", "e": e, "e2": GE.present_shuffle(rng, e), "ordering": o, "gen": lab})
    return out


def _slots(case):
    if case["kind"] in ("idem", "perm"):
        return dict(F.canonicalize_slots(case["ordering"], "", True), **F.canonicalize_slots(case["ordering"], "_2", True))
    return {}


def _forms(case):
    return F.forms_of(case, _slots(case))


def cases(rng: random.Random, tier: str):
    return [F.assign(c, _slots(c)) for c in _cases(rng, tier)]


def _cases(rng: random.Random, tier: str):
    if os.environ.get("VERIF_EXPR_FAST_SEARCH") == "1":
        tier = "quick"      # tools/mutate_expr.py only: keeps the runner's extended search at the size of the quick stream
    out = _load_corpus()
    out += structured_cases(rng, 4000 if tier == "quick" else 20000)
    n = 4000 if tier == "quick" else 40000
    for _ in range(n):
        e, cfg = _gen(rng)
        o = _ordering_for(rng, e, cfg.n_names)
        if rng.random() < 0.45:
            out.append({"kind": "idem", "e": e, "ordering": o})
        else:
            out.append({"kind": "perm", "e": e, "e2": GE.present_shuffle(rng, e), "ordering": o})
    nb = 8 if tier == "quick" else 16
    seeds = [0, 1, 2] if tier == "quick" else list(range(16))
    for b in range(nb):
        batch = []
        for _ in range(40):
            if b % 2 == 0:
                e, cfg = _gen(rng)
                nn = cfg.n_names
            else:
                e, nn, _lab = _struct(rng)
            batch.append([e, _ordering_for(rng, e, nn)])
        out.append({"kind": "seeds", "batch": batch, "hashseeds": seeds, "shuffle": rng.randrange(1 << 30)})
    mw = mw_cases(rng, 800 if tier == "quick" else 6000)      # appended: the streams above are unchanged
    out += mw
    batch = [[c["e"], c["ordering"]] for c in mw[:40]]
    out.append({"kind": "seeds", "batch": batch, "hashseeds": seeds, "shuffle": rng.randrange(1 << 30)})
    # set-order sensitive shapes (gen_expr.struct_setorder): sibling factors differing only inside a multi-element set-valued
    # field, same-named counterfactual children, 3-4 interventions / ranges, sums over multi-world joints - in process
    # (idempotence / presentation invariance) and in 2 (quick) / 6 (thorough) systematic fresh-interpreter batches
    so = []
    for fam in GE.SETORDER_FAMILIES:
        for _ in range(30 if tier == "quick" else 200):
            nn = rng.choice([5, 5, 6])
            e, lab = GE.struct_setorder(rng, nn, family=fam)
            o = _ordering_for(rng, e, nn + 3)
            so.append({"kind": "idem", "e": e, "ordering": o, "gen": lab} if rng.random() < 0.4 else
                      {"kind": "perm", "e": e, "e2": GE.present_shuffle(rng, e), "ordering": o, "gen": lab})
    out += so
    # wide leaves (4-6 children, 3-4 parents, 3-4 interventions) and the ordering shapes `_ordering_for` never produces
    # (covering only the event names; counterfactual / value-marked / Intervention elements; repeated elements)
    for _ in range(700 if tier == "quick" else 5000):
        if rng.random() < 0.6:
            e, lab = GE.struct_wide_expr(rng)
            nn = max(GE.all_names(e)) + 1
        else:
            e, nn, lab = _struct(rng)
        if rng.random() < 0.35:
            o, kind = _ordering_for(rng, e, nn), "plain"
        else:
            kind = rng.choice(GE.ORDERING_SHAPES)
            o = GE.rand_ordering_shape(rng, e, kind, nn)
        out.append({"kind": "idem", "e": e, "ordering": o, "gen": lab, "ordering_kind": kind} if rng.random() < 0.45 else
                   {"kind": "perm", "e": e, "e2": GE.present_shuffle(rng, e), "ordering": o, "gen": lab, "ordering_kind": kind})
    for b in range(2 if tier == "quick" else 6):
        batch = []
        for i in range(42):
            nn = rng.choice([5, 5, 6])
            e, _lab = GE.struct_setorder(rng, nn, family=GE.SETORDER_FAMILIES[i % len(GE.SETORDER_FAMILIES)])
            batch.append([e, _ordering_for(rng, e, nn + 3)])
        out.append({"kind": "seeds", "batch": batch, "hashseeds": seeds, "shuffle": rng.randrange(1 << 30)})
    return out


# ------------------------------------------------------------------------------------------ real code

ERRS = (KeyError, TypeError, ZeroDivisionError, ValueError, AttributeError, IndexError)


def _canon(enc, ordering, fm=None, suffix=""):
    from y0.mutate import canonicalize

    e = X.dec_expr(enc)
    o = None if ordering is None else [X.dec_var(v) for v in ordering]
    try:
        if fm is None:
            return canonicalize(e, o), None
        return F.call_canonicalize(canonicalize, e, o, fm, suffix), None
    except ERRS as ex:
        return None, type(ex).__name__


def _interesting(enc):
    cons = GE.constructors(enc)
    if "frac" in cons or "sum" in cons:
        return True
    for t in GE.subterms(enc):
        if isinstance(t, list) and t[0] == "prod":
            firsts = [(x[1] if x[0] == "P" else x[2])[0][1] for x in t[1:] if isinstance(x, list) and x[0] in ("P", "PP")]
            if len(set(firsts)) < len(firsts):
                return True
    return False


def _feat_tags(case):
    g = case.get("gen", "random").split(":")
    t = {"gen": g[0]}
    if len(g) > 1 and g[1].startswith("composite-"):
        t["sibling_family"] = g[1][len("composite-"):]
    for f in GE.features(case["e"], case["ordering"]):
        t["hit_" + f] = True
    return t


def run_python(case):
    from y0.mutate import canonicalize

    kind = case["kind"]
    fm = _forms(case)
    if kind == "idem":
        c1, err = _canon(case["e"], case["ordering"], fm)
        tags = {"kind": kind, "well_scoped": GE.well_scoped(case["e"]), "depth": GE.depth(case["e"]),
                "shared_base": GE.has_shared_base(case["e"]), "multiworld": GE.is_multiworld(case["e"]),
                "ordering_kind": case.get("ordering_kind", "plain"), "leaf_children>=4": GE.leaf_sizes(case["e"])[0] >= 4,
                "leaf_parents>=3": GE.leaf_sizes(case["e"])[1] >= 3, "leaf_ivs>=3": GE.leaf_sizes(case["e"])[2] >= 3,
                "ordering": "none" if case["ordering"] is None else "explicit", **_feat_tags(case), **F.tags(fm)}
        if c1 is None:
            return {"out": ["err"], "fail": None, "nontrivial": False, "tags": {**tags, "outcome": "err"}}
        o = None if case["ordering"] is None else [X.dec_var(v) for v in case["ordering"]]
        fail = None
        try:
            c2 = F.call_canonicalize(canonicalize, c1, o, fm, "_2")
            out = ["ok", X.to_str_tree(X.enc_expr(c1)), X.to_str_tree(X.enc_expr(c2))]
            if c1 != c2 or str(c1) != str(c2):
                fail = f"not idempotent: canonicalize({X.dec_expr(case['e'])}) = {c1} but canonicalising again gives {c2}"
        except ERRS as ex:
            out = ["err"]
            fail = f"canonicalising the canonical form {c1} raised {type(ex).__name__}"
        return {"out": out, "fail": fail, "nontrivial": _interesting(case["e"]) and out[0] == "ok" and out[1] != X.to_str_tree(case["e"]),
                "tags": {**tags, "outcome": out[0]}}
    if kind == "perm":
        c1, e1 = _canon(case["e"], case["ordering"], fm)
        c2, e2 = _canon(case["e2"], case["ordering"], fm, "_2")
        tags = {"kind": kind, "well_scoped": GE.well_scoped(case["e"]), "depth": GE.depth(case["e"]),
                "shuffled": case["e"] != case["e2"], "ordering": "none" if case["ordering"] is None else "explicit",
                "shared_base": GE.has_shared_base(case["e"]), "multiworld": GE.is_multiworld(case["e"]),
                **_feat_tags(case), **F.tags(fm)}
        fail = None
        if c1 is None and c2 is None:
            out = ["err"]
        elif c1 is None or c2 is None:
            out = ["err"]
            fail = (f"one presentation canonicalises, the other raises ({e1 or e2}): {X.dec_expr(case['e'])} vs "
                    f"{X.dec_expr(case['e2'])}")
        else:
            out = ["ok", X.to_str_tree(X.enc_expr(c1)), X.to_str_tree(X.enc_expr(c2))]
            if c1 != c2 or str(c1) != str(c2):
                fail = (f"presentation dependent: canonicalize({X.dec_expr(case['e'])}) = {c1} but "
                        f"canonicalize({X.dec_expr(case['e2'])}) = {c2}")
        return {"out": out, "fail": fail, "nontrivial": _interesting(case["e"]) and case["e"] != case["e2"] and out[0] == "ok",
                "tags": {**tags, "outcome": out[0]}}
    if kind == "seeds":
        return _run_seeds(case)
    raise ValueError(kind)


_CHILD = r"""
import json, random, sys
sys.path.insert(0, VERIF)
sys.path.insert(0, REPO_SRC)
import warnings; warnings.filterwarnings("ignore")
from harness import enc_expr as X
from harness import forms as F
from y0.mutate import canonicalize
from y0 import dsl
rng = random.Random(SHUFFLE)
_fs = frozenset
def shuffled_frozenset(xs):
    xs = list(xs); rng.shuffle(xs); return _fs(xs)
# construction order of the set-valued fields is shuffled as well: enc_expr builds every set-valued field (interventions,
# Sum.ranges, Q-factor domain / codomain) through the name `frozenset`, which is rebound here for that module only
X.frozenset = shuffled_frozenset
assert X.dec_expr(["sum", [["v", 1, "n", "0", []], ["v", 2, "n", "0", []]], ["P", [["v", 0, "n", "0", [[1, "m"], [2, "p"]]]], []]]) is not None
out = []
for idx, (enc, ordering) in enumerate(BATCH):
    try:
        o = None if ordering is None else [X.dec_var(v) for v in ordering]
        if o is not None:
            rng.shuffle(o)
        # the argument form is a function of the position in the batch only (the same under every hash seed)
        fm = F.derive({"i": idx}, F.canonicalize_slots(ordering, "", True))
        c = F.call_canonicalize(canonicalize, X.dec_expr(enc), o, fm)
        out.append([json.dumps(X.to_str_tree(X.enc_expr(c))), str(c)])
    except (KeyError, TypeError, ZeroDivisionError, ValueError) as ex:
        out.append(["err", "err"])
print(json.dumps(out))
"""


def _run_seeds(case):
    results = {}
    for hs in case["hashseeds"]:
        src = (_CHILD.replace("VERIF", repr(str(C.VERIF))).replace("REPO_SRC", repr(str(C.REPO / "src")))
               .replace("SHUFFLE", str(case["shuffle"] + hs)).replace("BATCH", "json.loads(%r)" % json.dumps(case["batch"])))
        env = dict(os.environ)
        env["PYTHONHASHSEED"] = str(hs)
        p = subprocess.run([sys.executable, "-c", src], capture_output=True, text=True, env=env, timeout=600)
        if p.returncode != 0:
            raise RuntimeError(p.stderr[-800:])
        results[hs] = json.loads(p.stdout.strip().splitlines()[-1])
    base = results[case["hashseeds"][0]]
    fail = None
    for hs, r in results.items():
        for i, (a, b) in enumerate(zip(base, r)):
            if a != b and fail is None:
                fail = (f"hash-seed dependent canonical form for {X.dec_expr(case['batch'][i][0])}: PYTHONHASHSEED="
                        f"{case['hashseeds'][0]} gives {a[1]} / {a[0][:120]}, PYTHONHASHSEED={hs} gives {b[1]} / {b[0][:120]}")
    return {"out": ["ok", "seeds"], "fail": fail, "nontrivial": True,
            "tags": {"kind": "seeds", "hashseeds": len(case["hashseeds"]), "batch": len(case["batch"])}}


# ------------------------------------------------------------------------------------------ model side

def request(case):
    o = case.get("ordering")
    oo = "none" if o is None else ["some"] + list(o)
    if case["kind"] == "idem":
        return C.enc(["expr", "canonicalize_twice_opt", case["e"], oo])
    if case["kind"] == "perm":
        return C.enc(["expr", "canonicalize_pair_opt", case["e"], case["e2"], oo])
    return None


def canon_model(case, rep):
    if rep[0] == "err":
        return ["err"]
    if rep[0] != "ok":
        return ["model-reply", rep]
    return ["ok", rep[1], rep[2]]


def shrink(case):
    if case["kind"] == "idem":
        for s in GE.shrink_expr(case["e"]):
            c = dict(case)
            c["e"] = s
            yield c
    elif case["kind"] == "perm":
        # shrink both presentations together is not possible in general: try sub-terms of each and re-shuffle
        for s in GE.shrink_expr(case["e"]):
            for k in range(3):
                c = dict(case)
                c["e"] = s
                c["e2"] = GE.present_shuffle(random.Random(k), s)
                yield c
    elif case["kind"] == "seeds":
        b = case["batch"]
        if len(b) > 1:
            for part in (b[: len(b) // 2], b[len(b) // 2:]):
                c = dict(case)
                c["batch"] = part
                yield c
        else:
            for s in GE.shrink_expr(b[0][0]):
                c = dict(case)
                c["batch"] = [[s, b[0][1]]]
                yield c


def finding_key(case, res):
    c = {k: case[k] for k in ("kind", "e", "e2", "batch") if k in case}
    return json.dumps(GE.alpha_normalise(c), sort_keys=True)


MANIFEST = {
    "text": ("Proof (Lean 4) about the executable model of canonicalize_expr.py + dsl.py after the fix commits: key_total - the "
             "sort key `_get_key` is a strict total order that separates any two different expressions (all expressions); "
             "canon_perm - expressions that differ by factor order, product nesting or children/parents order at any depth "
             "have identical canonical forms under every ordering (all expressions, both directions); canon_idem - canonicalising a canonical "
             "form returns it unchanged, via a syntactic characterisation of canonical forms (IsCanon) that the canonicaliser "
             "produces and fixes, for all expressions under the (name-sorted) orderings canonicalize builds; normal_form - both clauses for "
             "the public entry point canonicalize(e, ordering) including ordering=None, where the ordering is recomputed from "
             "the expression at every call (the canonicaliser only consults the name order). Hash-seed / construction-"
             "order independence is a runtime clause decided on every run by canonicalising batches in fresh interpreters "
             "under several PYTHONHASHSEEDs."),
    "note": ("Trusted: Lean kernel; the hand-written model tied to the code by differential sampling; Python's sorted() is "
             "modelled as stable insertion sort. Hash seeds: sampling (3 seeds quick, 16 thorough)."),
    "technique": "Lean 4 theorems (total order on keys, uniqueness of sorted permutations, mutual induction on the canonicaliser, syntactic normal-form invariant) + differential correspondence + direct oracle on the real code incl. fresh interpreters per hash seed",
}
