"""C12 — printing and parsing are inverse, printing is unambiguous.

A case is a CONSTRUCTION: a Python expression over the public builders and operators of y0.dsl (as an AST).
The real code builds the object `e` from it; then, on the real code,

    s = str(e);  p = y0.parser.parse_y0(s)

Correspondence streams (real code vs Lean model, every case):
  built     the object the builders/operators produce          vs  PyEval.evalExpr (construction AST)      (strict, factor order included)
  tokens    Python's `tokenize` on str(e)                      vs  Print.expr e                         (i)
  ast       Python's `ast.parse(str(e), mode="eval")`           vs  PyParse.parse (Print.expr e)         (ii)
  reparsed  parse_y0(str(e))                                   vs  PyEval.parseY0 (Print.expr e)        (iii)
  domain    (constant True)                                    vs  the theorems' hypotheses `wf e ∧ built e` decided by the model on the Python object
  simple    the oracle's simple-division test on the object    vs  the model's `simple e`
  names_once  "each distribution mentions a name once" decided on the construction tree by
            harness/oracles/print_names.py                     vs  the model's `namesOnce` (hypothesis of built_of_eval)
plus a token-string stream (kind "tokens"): Python's parser vs PyParse.parse on mutated printed texts.

Oracle (from the property statement, real code only): parse_y0(str(e)) succeeds and returns an Expression; it has the
same exact-rational value as e on random positive distributions (harness/oracles/print_eval.py); when every division
of e has division-free non-constant operands and is not a factor of a product: p == e and str(p) == str(e).
"""
from __future__ import annotations

import json
import random
from pathlib import Path

from .. import common as C
from .. import forms as F
from ..oracles import print_codec as PC
from ..oracles import print_names as PN

PROP = "C12"
RULE = ("type-directed constructions through the public builders only: P(...), P[...](...), PP[pop](...), PP[pop][...](...) with "
        "children/parents written as separate arguments, `|`, `&`, tuples, in shuffled order; variables plain, marked (+X, -X, ~X) "
        "and with intervention subscripts (Y @ X, Y @ (X, +Z), (Y @ X) @ Z); Sum[...](...), *, /, One(), Zero(), Q[...](...); "
        "each distribution mentions a name at most once; depth <= 5 (built objects up to depth 7, 100+ tokens); of the random stream 44% "
        "steered into the simple-division family (fractions only at the top or directly under a Sum, operands division-free and "
        "non-constant), 34% unrestricted, 20% shapes that leave the family (Sum * Fraction, constants as operands, divisions by "
        "fractions, products of fractions, Zero() operands), 2.5% malformed constructions the builders must reject (error taxonomy "
        "of the interpreter model); a structured stream (15% of the constructions) with one shape per context-dependent printer "
        "call site, wrapped 0-3 levels deep as summand / numerator / denominator / factor: Sum.to_y0 -> Fraction.to_y0(parens=False) "
        "with a product / sum / atom denominator and product numerator, also through two Sums; Fraction.to_y0 with product "
        "denominators at top level, as a factor of a product, with Sum(Fraction) as numerator / denominator / factor; "
        "CounterfactualVariable.to_y0 with one and with several interventions; the level-2 `P[..](..)` / `PP[..][..](..)` print vs "
        "mixed worlds (tags `shape`, `site …` computed on the built object); 1.3% constructions OUTSIDE the quantifier that write "
        "a name twice (exercise `namesOnce` false; the property's oracle is not applied to them); "
        "every public operator is also used to BUILD (tags op_*, counted on the construction tree): `@` applied to a finished "
        "P(..) / PP[..](..) and to a Distribution inside the call (`P(Y | Z) @ (X, +W)`, `P((Y & Z) @ X)`, also among other "
        "arguments and after a P[..] subscript), `|` with a `&`-joint on the right (`A | B & C`), chained `|`, `&` with a tuple "
        "on the right and `&` applied to a conditional, unary operators on a finished counterfactual variable (`-(Y @ X)`, then "
        "`@` again) and on an already marked variable (`~+Y`, `- -Y`); the forms the builders reject (`Sum @ X`, `A & (B & C)`, "
        "`-(A | B)`, …) are in the malformed stream; "
        "names: 70% of the pools from 8 common letters (+ one of 12 other spellings), 30% drawn uniformly from the WHOLE parser "
        "table (546 names: 24 letters, Pi, π; bare, with a digit, with _digit; 45% of these pools hold several spellings of one stem, "
        "X / X1 / X_1; Pi / π forms as ordinary variables and any Pi / π form as a population), plus a deterministic NAME SWEEP: for "
        "every name of the table `P(<name>)` and the name in one (quick) / each (thorough) of seven other roles (parent, "
        "subscript of a variable, Sum range, Q codomain, P[+..] subscript, population, marked child) next to its neighbour in the "
        "table; a pseudo case `census` reports how many table names the run drew and the rarest name's count; "
        "sizes: 6% of the distributions have 4-6 children, 6% 3-4 parents, 6% of the Sums 4-5 ranges, 8% of the P[..] 4-5 "
        "subscripts, 5% of the counterfactual variables 4-5 interventions, Q factors up to 4 + 5 variables (tags size_*). "
        "Corpus: README/paper estimands "
        "and the F4/F5 witnesses. Token-string stream: printed texts with 0-3 token mutations, Python's parser vs PyParse. "
        "A case is non-trivial when the built object has >= 2 leaves and contains a product, a sum or a fraction.")
ASSUMPTIONS = [
    "argument FORMS of the builders (harness/forms.py, harness/oracles/print_codec.py to_source_alt; tag form_dsl_form / alt_form_result): the construction tree is the form the model interprets (names as Variable objects, tuples); on the real code the SAME construction is additionally built in one alternative legal form per case -- plain names as str ('A') wherever a VariableHint is taken (arguments of P / PP[..] / Q[..], right operand of @ | &, subscripts of P / Sum / Q), tuples as lists, tuples as generator expressions, P[..](..) / PP[pop][..](..) as P(.., interventions=..) -- and, when that object is not the one the baseline form builds, the property's oracle (parse_y0(str(e')) succeeds, same meaning, equal on the simple-division family) is applied to it as well. That the alternative form builds an EQUAL object is dsl.py's documented behaviour, not part of C12: it is reported as a tag (alt_form_result: equal / differs / raises), never as a failure; there is no model side for the alternative form",
    "the clause theorems quantify over expressions satisfying the decidable invariant `built` (children/parents/ranges/"
    "(co)domains/subscripts sorted with each name once, products flat and in stable-sorted order without constant factors, Zero() "
    "only as the whole expression). That every expression built through the public DSL satisfies it IS a theorem (built_of_eval, "
    "no longer open): for every construction tree `a` over P/PP/Sum/Q/One/Zero, names, + - ~ @ | & * /, calls, subscripts and tuples "
    "with `namesOnce a` (the quantifier's 'each distribution mentioning a variable name at most once', a decidable predicate on the "
    "tree: every call's argument list, every `|`/`&`, every tuple, every `@` argument and every [...] subscript writes a name at most "
    "once; tuples non-empty), whatever the interpreter model builds from `a` is `built` and well-formed; instantiated for the total "
    "sort key of the code under test (Expr.ltE, asymmetry from the expr family's Expr.ltE_asymm) and for the pinned key. `namesOnce` "
    "is decided on EVERY generated construction by the model and by an independent Python implementation (harness/oracles/"
    "print_names.py, stream `names_once`); the generator produces namesOnce trees by construction (tag names_once: 100% of the "
    "well-formed streams); the run-time stream `domain` (model decides wf && built on the Python-built object) is kept as a "
    "cross-check and for constructions outside namesOnce",
    "quantifier: variable names are those of the parser's name table (A..Z without P/Q, Pi, π, with optional digit or _digit); "
    "a user-chosen name outside the table (e.g. 'AA') cannot be parsed by design of parse_y0 and is outside the property; the one such "
    "name the LIBRARY itself produces (TARGET_DOMAIN = Population('pi*'), the tag of transport estimands) is inside: the fixed code "
    "(ee7cb58) prints that population as the DSL constant TARGET_DOMAIN, which the parser's table now knows; the model has the "
    "constant as a keyword token and 30% of the generated PP[...] terms use it. A variable named 'pi*' anywhere else (a child, a "
    "subscript) is a user-chosen name outside the table",
    "quantifier: each distribution, each subscript list, each Sum range and each Q-(co)domain mentions a name at most once "
    "(the property's own restriction, extended to subscripts: Y @ (+X, -X) is not generated); Q factors and ranges are non-empty",
    "the tie between the hand-written grammar (Model/PyParse) and Python's parser is correspondence stream (ii): `ast.parse` on every "
    "printed text and on mutated token strings, not a theorem; Python's `tokenize` is trusted to be the lexer `eval` uses; the "
    "printers' white space is not modelled (token level)",
    "the tie between Model/PyEval and dsl.py (builders, `__mul__`/`__truediv__` overloads, Product.safe, Sum.safe, QFactor.safe, "
    "Distribution.safe) is correspondence streams `built` and `reparsed` (sampling); the interpreter is parametric in the order "
    "Product.safe sorts with and no theorem depends on it; Python's TypeError for incomparable sort keys is not modelled",
    "`den` (lean/Y0/Spec/Sem.lean, owned by the expr family) is the specification of meaning; the Python oracle uses its own "
    "exact-rational evaluator (harness/oracles/print_eval.py) with the same reading convention",
    "frozenset iteration order and hash seeds are not modelled (the model prints sorted subscripts, as the fixed code does); run the "
    "check under several PYTHONHASHSEED values to exercise them",
]
EXHAUSTIVE = {"quick": False, "thorough": False}
ESCALATED_TIER = "escalated"   # generator budget of a quick run when an anchored source file changed (≈ 1.5 min)
LEANCHECK_MODULES = ["Y0.Model.Print", "Y0.Model.PyParse", "Y0.Model.PyEval", "Y0.Props.C12"]

COMMON = ["A", "B", "C", "D", "W", "X", "Y", "Z"]
EXOTIC = ["X1", "Z_2", "M0", "A_0", "Pi", "π", "E", "T", "S", "R9", "U3", "Y_7"]
POPS = ["π1", "π2", "Pi1", "π"]
# the WHOLE name table of the parser (parser/internal.py: letters without P/Q, Pi, π; bare, with a digit, with _digit)
TABLE = [n for n in PC.NAMES if n != PC.TARGET_NAME]
P_TABLE_POOL = 0.30          # share of the constructions whose name pool is drawn uniformly from TABLE


def stem_of(name: str) -> str:
    """'X_1' -> 'X', 'Pi3' -> 'Pi', 'π' -> 'π'"""
    return name.rstrip("0123456789").rstrip("_")


def spellings(stem: str):
    return [stem] + [f"{stem}{d}" for d in range(10)] + [f"{stem}_{d}" for d in range(10)]


PI_FORMS = spellings("Pi") + spellings("π")
_OLD_LISTS = set(COMMON) | set(EXOTIC) | set(POPS)

CORPUS_DIR = C.VERIF / "corpus" / "C12"


def _n(name):
    return ["n", PC.name_to_int(name)]


# ------------------------------------------------------------------------------------------ generator

class Gen:
    def __init__(self, rng: random.Random):
        self.rng = rng
        k = rng.randint(4, 7)
        if rng.random() < 0.08:
            k = rng.randint(8, 11)                      # room for distributions with up to 6 children / 4 parents
        self.table = rng.random() < P_TABLE_POOL
        if self.table:
            # names from the whole parser table, uniformly; often several spellings of one stem together (X, X1, X_1)
            pool = rng.sample(TABLE, k)
            if rng.random() < 0.45:
                st = stem_of(rng.choice(pool))
                sp = spellings(st)
                d = rng.randrange(10)
                more = [st, f"{st}{d}", f"{st}_{d}"] if rng.random() < 0.5 else rng.sample(sp, 3)
                for j, nm in enumerate(more[:rng.choice([1, 2, 2, 3])]):
                    pool[(j * 2 + 1) % len(pool)] = nm
        else:
            pool = rng.sample(COMMON, min(k, len(COMMON)))
            if len(pool) < k:
                pool += rng.sample([n for n in TABLE if n not in COMMON], k - len(pool))
                rng.shuffle(pool)
            if rng.random() < 0.35:
                pool[-1] = rng.choice(EXOTIC)
            if rng.random() < 0.15:
                pool[0] = rng.choice(EXOTIC)
        self.pool = list(dict.fromkeys(pool))

    def popn(self):
        """a population: a π name, or (30%) the library's own TARGET_DOMAIN, the tag of every transport estimand"""
        if self.rng.random() < 0.3:
            return ["k", "TARGET_DOMAIN"]
        if self.table:
            return _n(self.rng.choice(PI_FORMS) if self.rng.random() < 0.85 else self.rng.choice(TABLE))
        return _n(self.rng.choice(POPS))

    def mark(self, a, p=0.22):
        r = self.rng.random()
        if r < p * 0.55:
            return ["un", "pos", a]
        if r < p * 0.88:
            return ["un", "neg", a]
        if r < p:
            return ["un", "inv", a]
        return a

    def unary(self, a):
        return ["un", self.rng.choice(["pos", "neg", "neg", "inv"]), a]

    def iv(self, name, star):
        """an intervention with value `star` (True: the other value), written in any of the equivalent ways"""
        a = _n(name)
        r = self.rng.random()
        if star:
            if r < 0.02:                                   # unary on an already marked variable
                return ["un", "pos", self.unary(a)] if r < 0.01 else ["un", "inv", ["un", "neg", a]]
            return ["un", "pos", a] if r < 0.9 else ["un", "inv", a]
        if r < 0.02:
            return ["un", "neg", self.unary(a)] if r < 0.01 else ["un", "inv", ["un", "pos", a]]
        return a if r < 0.8 else ["un", "neg", a]

    def ivs_arg(self, ivs):
        return ivs[0] if len(ivs) == 1 else ["tup"] + ivs

    def var(self, name, others, stars, p_cf=0.2):
        rng = self.rng
        a = self.mark(_n(name))
        if rng.random() < 0.03:
            # a unary operator on an already marked variable: ~+Y, - -Y, +-Y (Variable.invert on star True / False)
            a = self.unary(a if a[0] == "un" else self.mark(a, p=1.0))
        if others and rng.random() < p_cf:
            kmax = rng.choice([1, 1, 1, 2, 2, 3]) if rng.random() > 0.05 else rng.choice([4, 5])
            k = min(len(others), kmax)
            ivn = rng.sample(others, k)
            ivs = [self.iv(n, stars[n] if rng.random() > 0.02 else not stars[n]) for n in ivn]   # rarely: a clash -> ValueError
            style = rng.random()
            late = []
            if k >= 2 and rng.random() < 0.1:
                late, ivs = ivs[-1:], ivs[:-1]             # … one more `@` AFTER the unary operator below
            if len(ivs) == 1:
                a = ["bin", "matmul", a, ivs[0]]
            elif style < 0.7:
                a = ["bin", "matmul", a, ["tup"] + ivs]
            else:
                for i in ivs:
                    a = ["bin", "matmul", a, i]
            if rng.random() < 0.1 or late:
                # a unary operator on the finished counterfactual variable (the CounterfactualVariable overrides of
                # __pos__ / __neg__ / invert keep the subscripts): -(Y @ X), ~(-Y @ X)
                a = self.unary(a)
            for i in late:
                a = ["bin", "matmul", a, i]                # (-(Y @ X)) @ Z
        return a

    @staticmethod
    def _band(xs):
        x = xs[0]
        for y in xs[1:]:
            x = ["bin", "band", x, y]
        return x

    def joint_of(self, cv):
        """variables written as ONE distribution-valued expression (len(cv) >= 2): `&` chains, `&` with a tuple on the right"""
        r = self.rng.random()
        if len(cv) == 2 or r < 0.4:
            return self._band(cv)                                                 # A & B & C
        if r < 0.75 or len(cv) == 3:
            return ["bin", "band", cv[0], ["tup"] + cv[1:]]                       # A & (B, C)
        j = self.rng.randrange(2, len(cv) - 1)
        return ["bin", "band", self._band(cv[:j]), ["tup"] + cv[j:]]              # A & B & (C, D)

    def given_of(self, x, pv):
        """`x | parents` with the parents written in every legal way (x a variable or a distribution without parents)"""
        rng = self.rng
        if len(pv) == 1:
            return ["bin", "bor", x, pv[0]]
        r = rng.random()
        if r < 0.25:
            return ["bin", "bor", x, ["tup"] + pv]
        if r < 0.55:
            return ["bin", "bor", x, self.joint_of(pv)]                           # A | B & C   (the documented idiom)
        if r < 0.8:
            y = x
            for p in pv:
                y = ["bin", "bor", y, p]                                          # A | B | C  ==  (A | B) | C
            return y
        j = rng.randrange(1, len(pv))
        left = self.given_of(x, pv[:j])
        rest = pv[j:]
        return ["bin", "bor", left, rest[0] if len(rest) == 1 else (self.joint_of(rest) if rng.random() < 0.6 else ["tup"] + rest)]

    def dist_args(self, cv, pv):
        """the argument list of a P / PP[..] call for children cv and parents pv; second component: the list is one
        distribution-valued argument (so that `@` can be applied to it)"""
        rng = self.rng
        style = rng.random()
        new = rng.random() < 0.3          # the operator forms that only `|`, `&` between DISTRIBUTIONS reach
        if not pv:
            if len(cv) == 1:
                return cv, False
            if new:
                return [self.joint_of(cv)], True
            if style < 0.75:
                return cv, False
            if style < 0.9:
                return [["tup"] + cv], False
            return [self._band(cv)], True
        if new:
            r = rng.random()
            if r < 0.45 or len(cv) == 1:
                x = cv[0] if len(cv) == 1 else self.joint_of(cv)
                if len(cv) == 1 and len(pv) >= 3 and rng.random() < 0.3:
                    return [self.given_of(x, pv[:-1]), pv[-1]], False            # P(A | B & C, D)
                return [self.given_of(x, pv)], True
            if r < 0.75:
                return cv[:-1] + [self.given_of(cv[-1], pv)], False              # P(A, B | C | D)
            # `&` applied to a conditional distribution: P((A | B) & C) == P(A, C | B)
            x = self.given_of(cv[0], pv)
            rest = cv[1:]
            return [["bin", "band", x, rest[0] if len(rest) == 1 else ["tup"] + rest]], True
        if style < 0.8:
            return cv[:-1] + [["bin", "bor", cv[-1], pv[0]]] + pv[1:], len(cv) == 1 and len(pv) == 1
        return [["bin", "bor", self._band(cv), pv[0] if len(pv) == 1 else ["tup"] + pv]], True

    def prob(self):
        rng = self.rng
        names = list(self.pool)
        rng.shuffle(names)
        nc = rng.choice([1, 1, 1, 2, 2, 3]) if rng.random() > 0.06 else rng.randint(4, 6)
        np_ = rng.choice([0, 0, 0, 1, 1, 2]) if rng.random() > 0.06 else rng.randint(3, 4)
        nc = min(nc, len(names))
        np_ = min(np_, len(names) - nc)
        ch, pa = names[:nc], names[nc:nc + np_]
        others = names[nc + np_:]
        stars = {n: rng.random() < 0.3 for n in others}
        p_cf = rng.choice([0.0, 0.0, 0.2, 0.6, 1.0])
        cv = [self.var(n, others, stars, p_cf) for n in ch]
        pv = [self.var(n, others, stars, p_cf) for n in pa]
        args, single = self.dist_args(cv, pv)
        head = ["k", "P"]
        if rng.random() < 0.22:
            head = ["sub", ["k", "PP"], self.popn()]
        if not others or rng.random() >= 0.28:
            dpos = [i for i, x in enumerate(args) if x[0] == "bin" and x[1] in ("bor", "band")]
            if dpos and others and rng.random() < 0.04:
                # `@` on a distribution that is one argument among others: P(W, (Y | Z) @ X, V): mixed worlds
                args = list(args)
                args[dpos[0]] = ["bin", "matmul", args[dpos[0]], self.iv(others[0], stars[others[0]])]
            return ["call", head] + args
        kmax = rng.choice([1, 1, 2, 3]) if rng.random() > 0.08 else rng.choice([4, 5])
        k = min(len(others), kmax)
        ivs = [self.iv(n, stars[n]) for n in rng.sample(others, k)]
        how = rng.random()
        if how < 0.6:                                       # the builder's own subscript syntax P[..](..)
            return ["call", ["sub", head, self.ivs_arg(ivs)]] + args
        sub_ivs = []
        if k >= 2 and rng.random() < 0.3:
            sub_ivs, ivs = ivs[:1], ivs[1:]                 # P[A](Y | Z) @ X: both syntaxes on one term
        if sub_ivs:
            head = ["sub", head, sub_ivs[0]]
        if how >= 0.8 and not single and (len(cv) >= 2 or pv):
            x = cv[0] if len(cv) == 1 else self.joint_of(cv)
            args, single = [self.given_of(x, pv) if pv else x], True
        if how < 0.8 or not single:
            # `@` applied to the finished Probability / PopulationProbability: P(Y | Z) @ (X, +W), PP[π1](Y) @ X
            x = ["call", head] + args
            if len(ivs) >= 2 and rng.random() < 0.3:
                for i in ivs:
                    x = ["bin", "matmul", x, i]
                return x
            return ["bin", "matmul", x, self.ivs_arg(ivs)]
        # `@` applied to the Distribution inside the call: P((Y | Z) @ X), P((Y & Z) @ X)
        d = args[0]
        if len(ivs) >= 2 and rng.random() < 0.3:
            for i in ivs:
                d = ["bin", "matmul", d, i]
        else:
            d = ["bin", "matmul", d, self.ivs_arg(ivs)]
        return ["call", head, d]

    def q(self):
        rng = self.rng
        names = list(self.pool)
        rng.shuffle(names)
        nc = rng.choice([1, 1, 2]) if rng.random() > 0.06 else rng.randint(3, 4)
        nd = rng.choice([1, 2, 2, 3]) if rng.random() > 0.06 else rng.randint(4, 5)
        nc = min(nc, len(names) - 1)
        nd = min(nd, len(names) - nc)
        fancy = rng.random() < 0.15
        others = names[nc + nd:]
        stars = {n: rng.random() < 0.3 for n in others}
        mk = (lambda n: self.var(n, others, stars, 0.4)) if fancy else _n
        cod = [mk(n) for n in names[:nc]]
        dom = [mk(n) for n in names[nc:nc + nd]]
        head = ["sub", ["k", "Q"], cod[0] if len(cod) == 1 else ["tup"] + cod]
        if rng.random() < 0.2 and len(dom) > 1:
            return ["call", head, ["tup"] + dom]
        return ["call", head] + dom

    def leaf(self, const_ok=True):
        r = self.rng.random()
        if const_ok and r < 0.05:
            return ["call", ["k", "One"]]
        if const_ok and r < 0.065:
            return ["call", ["k", "Zero"]]
        if r < 0.16:
            return self.q()
        return self.prob()

    def ranges(self):
        k = self.rng.choice([1, 1, 2, 3]) if self.rng.random() > 0.06 else self.rng.choice([4, 5])
        ns = self.rng.sample(self.pool, min(k, len(self.pool)))
        return _n(ns[0]) if len(ns) == 1 else ["tup"] + [_n(n) for n in ns]

    def free(self, depth):
        """unrestricted: fractions of fractions, fraction factors, constants anywhere"""
        rng = self.rng
        if depth <= 0 or rng.random() < 0.22:
            return self.leaf()
        r = rng.random()
        if r < 0.36:
            return ["bin", "mul", self.free(depth - 1), self.free(depth - 1)]
        if r < 0.66:
            return ["bin", "div", self.free(depth - 1), self.free(depth - 1)]
        return ["call", ["sub", ["k", "Sum"], self.ranges()], self.free(depth - 1)]

    def simple(self, depth, ctx="top"):
        """steered into the simple-division family. ctx: top | factor (no fraction here) | operand (no fraction below)"""
        rng = self.rng
        if depth <= 0 or rng.random() < 0.2:
            return self.leaf(const_ok=(ctx == "top" and rng.random() < 0.3))
        r = rng.random()
        if ctx == "top" and r < 0.3:
            return ["bin", "div", self.simple(depth - 1, "operand"), self.simple(depth - 1, "operand")]
        if r < 0.62:
            c = "operand" if ctx == "operand" else "factor"
            return ["bin", "mul", self.simple(depth - 1, c), self.simple(depth - 1, c)]
        c = "operand" if ctx == "operand" else "top"
        return ["call", ["sub", ["k", "Sum"], self.ranges()], self.simple(depth - 1, c)]


    def tricky(self, depth):
        """shapes known to leave the simple-division family: a fraction as a factor (Sum * Fraction), constants as
        operands, divisions by fractions, products of fractions"""
        rng = self.rng
        sub = lambda: self.free(max(depth - 1, 0)) if rng.random() < 0.5 else self.simple(max(depth - 1, 0), "operand")  # noqa: E731
        one, zero = ["call", ["k", "One"]], ["call", ["k", "Zero"]]
        sm = lambda x: ["call", ["sub", ["k", "Sum"], self.ranges()], x]  # noqa: E731
        r = rng.randrange(12)
        if r == 0:
            return ["bin", "mul", sm(sub()), ["bin", "div", sub(), sub()]]
        if r == 1:
            return ["bin", "mul", sub(), ["bin", "mul", sm(sub()), ["bin", "div", sub(), sub()]]]
        if r == 2:
            return ["bin", "div", one, sub()]
        if r == 3:
            return ["bin", "div", sub(), ["bin", "div", one, sub()]]
        if r == 4:
            return ["bin", "div", ["bin", "div", sub(), sub()], ["bin", "div", sub(), sub()]]
        if r == 5:
            return sm(one) if rng.random() < 0.7 else sm(zero)
        if r == 6:
            return ["bin", "mul", ["bin", "div", sub(), sub()], ["bin", "div", sub(), sub()]]
        if r == 7:
            return ["bin", "mul", rng.choice([zero, one]), sub()] if rng.random() < 0.5 else ["bin", "mul", sub(), rng.choice([zero, one])]
        if r == 8:
            return ["bin", "div", zero, sub()] if rng.random() < 0.7 else ["bin", "div", sub(), zero]
        if r == 9:
            return sm(["bin", "mul", sm(sub()), ["bin", "div", sub(), ["bin", "mul", sub(), sub()]]])
        if r == 10:
            return ["bin", "div", ["bin", "mul", sm(one), sub()], ["bin", "mul", sub(), sm(sub())]]
        return ["bin", "div", sub(), ["bin", "mul", ["bin", "div", sub(), sub()], sub()]]


    # ---- printer call sites: every place where a `to_y0` is called with a non-default argument or chooses its
    # brackets from the context, each with its own shape (tag `shape`), wrapped 0-3 levels deep
    MODE_SHAPES = ("sum_frac_prodden", "sum_frac_prodden_sumden", "sum_frac_prodnum", "sum_frac_atoms", "sum_frac_sumden",
                   "sum_sum_frac_prodden", "frac_prodden_top", "frac_prodnum_prodden", "frac_factor_prodden",
                   "frac_sumfrac_num", "frac_sumfrac_den", "prod_sumfrac_factor", "frac_prodden_with_sumfrac",
                   "cf_single_iv", "cf_multi_iv", "level2", "level2_pp", "mixed_worlds", "q_in_den")

    def atom(self):
        return self.q() if self.rng.random() < 0.12 else self.prob()

    def prodn(self, k=None):
        k = k or self.rng.choice([2, 2, 3])
        x = self.atom()
        for _ in range(k - 1):
            x = ["bin", "mul", x, self.atom()]
        return x

    def sm(self, x):
        return ["call", ["sub", ["k", "Sum"], self.ranges()], x]

    def cfprob(self, k, level2=False, pp=False, mixed=False):
        """a probability whose variables carry k intervention subscripts: the same on all of them (level-2 print
        `P[..](..)`), or different ones (mixed worlds, printed variable by variable with `@ x` / `@ (x, y)`)"""
        rng = self.rng
        names = list(self.pool)
        rng.shuffle(names)
        k = max(1, min(k, len(names) - 2))
        ivn, rest = names[:k], names[k:]
        nc = rng.choice([1, 1, 2])
        np_ = rng.choice([0, 1, 1])
        nc = min(nc, len(rest))
        np_ = min(np_, len(rest) - nc)
        stars = {n: rng.random() < 0.4 for n in ivn}
        mk = lambda n: (["bin", "matmul", self.mark(_n(n)), self.iv(ivn[0], stars[ivn[0]])] if k == 1 else  # noqa: E731
                        ["bin", "matmul", self.mark(_n(n)), ["tup"] + [self.iv(i, stars[i]) for i in ivn]])
        ch = [mk(n) for n in rest[:nc]]
        pa = [mk(n) for n in rest[nc:nc + np_]]
        if mixed and (len(ch) + len(pa)) >= 2:
            # drop the subscripts of one variable, or give it a proper subset: no common intervention set
            tgt = pa if pa else ch
            plain = self.mark(_n(rest[nc + np_ - 1] if pa else rest[nc - 1]))
            tgt[-1] = plain if (k == 1 or rng.random() < 0.5) else ["bin", "matmul", plain, self.iv(ivn[0], stars[ivn[0]])]
        head = ["k", "P"] if not pp else ["sub", ["k", "PP"], self.popn()]
        how = rng.random()
        if level2 and how < 0.65:
            # the same object written with the builder's own subscript syntax, or with `@` applied to the finished
            # Probability, or to the Distribution inside the call
            ch = [self.mark(_n(n)) for n in rest[:nc]]
            pa = [self.mark(_n(n)) for n in rest[nc:nc + np_]]
            ivs = [self.iv(i, stars[i]) for i in ivn]
            if how < 0.4:
                head = ["sub", head, self.ivs_arg(ivs)]
            elif how < 0.55 or len(ch) + len(pa) < 2:
                args = ch if not pa else ch[:-1] + [["bin", "bor", ch[-1], pa[0]]] + pa[1:]
                return ["bin", "matmul", ["call", head] + args, self.ivs_arg(ivs)]
            else:
                x = ch[0] if len(ch) == 1 else self.joint_of(ch)
                return ["call", head, ["bin", "matmul", self.given_of(x, pa) if pa else x, self.ivs_arg(ivs)]]
        args = ch if not pa else ch[:-1] + [["bin", "bor", ch[-1], pa[0]]] + pa[1:]
        return ["call", head] + args

    def mode_core(self, shape):
        rng = self.rng
        A, PR, SM = self.atom, self.prodn, self.sm
        div = lambda a, b: ["bin", "div", a, b]  # noqa: E731
        mul = lambda a, b: ["bin", "mul", a, b]  # noqa: E731
        if shape == "sum_frac_prodden":             # Sum.to_y0 -> Fraction.to_y0(parens=False), product denominator
            return SM(div(A(), PR()))
        if shape == "sum_frac_prodden_sumden":      # … the product denominator contains a Sum
            return SM(div(A(), mul(SM(PR()), A())))
        if shape == "sum_frac_prodnum":
            return SM(div(PR(), rng.choice([A, PR])()))
        if shape == "sum_frac_atoms":
            return SM(div(A(), A()))
        if shape == "sum_frac_sumden":
            return SM(div(A(), SM(PR())))
        if shape == "sum_sum_frac_prodden":         # parens=False reached through two Sums
            return SM(SM(div(rng.choice([A, PR])(), PR())))
        if shape == "frac_prodden_top":             # Fraction.to_y0(parens=True), product denominator
            return div(rng.choice([A, PR])(), PR())
        if shape == "frac_prodnum_prodden":
            return div(PR(), PR(3))
        if shape == "frac_factor_prodden":          # Product.to_y0 -> Fraction.to_y0() of a factor
            return mul(SM(A()), div(A(), PR()))
        if shape == "frac_sumfrac_num":             # numerator = Sum(Fraction(.., Product))
            return div(SM(div(A(), PR())), rng.choice([A, PR])())
        if shape == "frac_sumfrac_den":             # denominator = Sum(Fraction(.., Product))
            return div(A(), SM(div(A(), PR())))
        if shape == "prod_sumfrac_factor":          # a factor = Sum(Fraction(.., Product))
            return mul(A(), SM(div(A(), PR())))
        if shape == "frac_prodden_with_sumfrac":    # denominator = Product containing Sum(Fraction(.., Product))
            return div(A(), mul(A(), SM(div(A(), PR()))))
        if shape == "cf_single_iv":                 # CounterfactualVariable.to_y0, one intervention: `Y @ -X` bare
            return mul(self.cfprob(1, mixed=True), A())
        if shape == "cf_multi_iv":                  # … several: `Y @ (-X, +Z)`
            return mul(self.cfprob(rng.choice([2, 3]), mixed=True), A())
        if shape == "level2":                       # Probability.to_y0 with a common intervention set: P[X](Y | Z)
            return SM(mul(self.cfprob(rng.choice([1, 2, 3]), level2=True), A()))
        if shape == "level2_pp":                    # PopulationProbability.to_y0: PP[π][X](Y)
            return div(self.cfprob(rng.choice([1, 2]), level2=True, pp=True), PR())
        if shape == "mixed_worlds":
            return SM(div(self.cfprob(rng.choice([1, 2]), mixed=True), PR()))
        if shape == "q_in_den":
            return SM(div(A(), mul(self.q(), self.q())))
        raise ValueError(shape)

    def mode_wrap(self, x, levels):
        """put `x` into `levels` random contexts: summand, numerator, denominator, factor"""
        rng = self.rng
        for _ in range(levels):
            r = rng.randrange(7)
            if r == 0:
                x = self.sm(x)
            elif r == 1:
                x = ["bin", "div", x, self.atom()]
            elif r == 2:
                x = ["bin", "div", self.atom(), x]
            elif r == 3:
                x = ["bin", "mul", self.atom(), x]
            elif r == 4:
                x = ["bin", "mul", x, self.sm(self.atom())]
            elif r == 5:
                x = self.sm(["bin", "mul", x, self.atom()])
            else:
                x = ["bin", "div", self.atom(), ["bin", "mul", x, self.atom()]]
        return x

    def modes(self, shape=None):
        shape = shape or self.rng.choice(self.MODE_SHAPES)
        return shape, self.mode_wrap(self.mode_core(shape), self.rng.choice([0, 0, 1, 1, 2, 3]))


    def repeated(self):
        """constructions OUTSIDE the quantifier: a list that the builders treat as a set writes a name twice (or a tuple is
        empty). They exercise the negative side of `namesOnce` (model vs harness/oracles/print_names.py) and the
        interpreter model on de-duplication; the oracle of the property is not applied to them."""
        rng = self.rng
        a, b, c = (_n(n) for n in (self.pool + self.pool)[:3])
        P = lambda *args: ["call", ["k", "P"], *args]  # noqa: E731
        pos = lambda x: ["un", "pos", x]  # noqa: E731
        r = rng.randrange(16)
        if r == 0:
            x = P(a, a)
        elif r == 1:
            x = P(["bin", "bor", a, a])
        elif r == 2:
            x = P(["bin", "band", a, a])
        elif r == 3:
            x = P(["tup", a, b, a])
        elif r == 4:
            x = P(["bin", "bor", a, ["tup", b, b]])
        elif r == 5:
            x = P(["bin", "matmul", a, ["tup", b, b]])
        elif r == 6:
            x = P(["bin", "matmul", a, ["tup", pos(b), ["un", "neg", b]]])     # Y @ (+X, -X): no overlap check on a fresh list
        elif r == 7:
            x = ["call", ["sub", ["k", "Sum"], ["tup", a, a]], P(a, b)]
        elif r == 8:
            x = ["call", ["sub", ["k", "Q"], ["tup", a, a]], b]
        elif r == 9:
            x = ["call", ["sub", ["k", "Q"], a], b, b]
        elif r == 10:
            x = ["call", ["sub", ["k", "P"], ["tup", b, b]], a]
        elif r == 11:
            x = ["call", ["sub", ["k", "P"], ["tup", pos(b), b]], a]           # P[+X, X](Y): the same name with two values
        elif r == 12:
            x = P(["bin", "matmul", a, b], a)
        elif r == 13:
            x = P(["bin", "bor", a, b], a)
        elif r == 14:
            x = P(pos(a), ["bin", "bor", ["un", "neg", a], b])
        else:
            x = ["call", ["sub", ["k", "Q"], a], ["tup", b, c, b]]
        return self.mode_wrap(x, rng.choice([0, 0, 1]))

    def malformed(self):
        """constructions the builders reject (error taxonomy of the interpreter model): the real code must raise, or
        return something that is not an expression, exactly when the model does"""
        rng = self.rng
        a, b, c, d = (_n(n) for n in (self.pool + self.pool)[:4])
        pa = ["call", ["k", "P"], a]
        r = rng.randrange(22)
        sm = ["call", ["sub", ["k", "Sum"], b], ["call", ["k", "P"], a, b]]
        if r == 12:
            return ["bin", "matmul", sm, c]                                                    # Sum @ X: no __matmul__
        if r == 13:
            return ["bin", "matmul", ["bin", "mul", pa, ["call", ["k", "P"], b]], c]           # Product @ X
        if r == 14:
            return ["bin", "matmul", ["call", ["sub", ["k", "Q"], a], b], c]                   # QFactor @ X
        if r == 15:
            return ["call", ["k", "P"], ["bin", "band", a, ["bin", "band", b, c]]]             # A & (B & C): a Distribution is not a VariableHint
        if r == 16:
            return ["call", ["k", "P"], ["bin", "band", a, ["bin", "bor", b, c]]]              # A & (B | C)
        if r == 17:
            return ["call", ["k", "P"], ["un", rng.choice(["pos", "neg", "inv"]), ["bin", "bor", a, b]]]   # -(A | B)
        if r == 18:
            return ["un", "neg", pa]                                                           # -P(A)
        if r == 19:
            return ["bin", "matmul", pa, ["call", ["k", "P"], b]]                              # P(A) @ P(B)
        if r == 20:
            return ["call", ["k", "P"], ["bin", "bor", ["bin", "bor", a, b], ["bin", "bor", c, d]]]   # (A | B) | (C | D)
        if r == 21:
            return ["call", ["k", "P"], ["bin", "matmul", ["bin", "bor", a, b], ["bin", "band", c, d]]]   # (A | B) @ (C & D)
        if r == 0:
            return ["call", ["k", "P"], ["bin", "bor", a, b], ["bin", "bor", c, d]]          # two conditionals
        if r == 1:
            return ["call", ["k", "P"]]                                                        # no argument
        if r == 2:
            return ["call", ["sub", ["k", "Sum"], ["un", "pos", a]], pa]                       # starred range
        if r == 3:
            return ["bin", "add", pa, ["call", ["k", "P"], b]]                                 # no __add__
        if r == 4:
            return ["call", pa, b]                                                             # not callable
        if r == 5:
            return ["call", ["k", "One"], a]                                                   # One() takes no arguments
        if r == 6:
            return ["call", ["k", "P"], ["tup", a, b], c]                                      # iterable + args
        if r == 7:
            return ["bin", "div", pa, ["call", ["k", "Zero"]]]                                 # ZeroDivisionError
        if r == 8:
            return ["call", ["sub", ["sub", ["k", "P"], a], b], c]                             # P[A][B]: partial not subscriptable
        if r == 9:
            return ["call", ["k", "P"], ["bin", "bor", a, ["bin", "bor", b, c]]]               # conditional on a conditional
        if r == 10:
            return ["bin", "mul", pa, a]                                                       # expression * variable
        return ["call", ["k", "P"], ["bin", "matmul", ["bin", "matmul", a, b], ["un", "pos", b]]]   # Y @ B @ +B: overlap


def load_corpus():
    out = []
    if CORPUS_DIR.exists():
        for f in sorted(CORPUS_DIR.glob("*.json")):
            d = json.loads(f.read_text())
            out.append({"kind": "expr", "build": d["build"], "corpus": f.stem})
    return out


def _mutate_tokens(rng, toks):
    toks = list(toks)
    alphabet = ["lp", "rp", "lb", "rb", "cm", "pl", "mi", "ti", "at", "st", "sl", "ba", "am", "P", "Sum", "One", "PP", "TARGET_DOMAIN",
                str(PC.name_to_int("A")), str(PC.name_to_int("B"))]
    for _ in range(rng.choice([0, 1, 1, 2, 3])):
        r = rng.random()
        if toks and r < 0.35:
            del toks[rng.randrange(len(toks))]
        elif r < 0.7:
            toks.insert(rng.randrange(len(toks) + 1), rng.choice(alphabet))
        elif len(toks) > 1:
            i, j = rng.randrange(len(toks)), rng.randrange(len(toks))
            toks[i], toks[j] = toks[j], toks[i]
    return toks


SPECIAL = [{"kind": "special", "what": "target_domain"}]


def cases(rng: random.Random, tier: str):
    return [F.assign(c, _slots(c)) if c.get("kind") == "expr" else c for c in _cases(rng, tier)]


SWEEP_TEMPLATES = ("child", "given", "cf", "sum", "q", "level2", "pp", "marked")


def sweep_case(a: str, b: str, template: str):
    """one tiny construction in which the table name `a` has a fixed role (and `b`, its neighbour in the table, which
    is another spelling of the same stem for most names, the complementary one)"""
    A, B = _n(a), _n(b)
    P = lambda *xs: ["call", ["k", "P"], *xs]  # noqa: E731
    if template == "child":
        x = P(A)
    elif template == "given":
        x = P(["bin", "bor", A, B])
    elif template == "cf":
        x = P(["bin", "matmul", B, A], A)
    elif template == "sum":
        x = ["call", ["sub", ["k", "Sum"], A], P(A, B)]
    elif template == "q":
        x = ["call", ["sub", ["k", "Q"], A], B]
    elif template == "level2":
        x = ["call", ["sub", ["k", "P"], ["un", "pos", A]], B]
    elif template == "pp":
        x = ["call", ["sub", ["k", "PP"], A], B]
    elif template == "marked":
        x = P(["un", "pos", A], ["un", "neg", B])
    else:
        raise ValueError(template)
    return {"kind": "expr", "build": x, "shape": "name-sweep"}


def name_sweep(tier: str):
    """EVERY name of the parser's table, deterministically: `P(<name>)`, and the name in one (quick) / every (thorough)
    other role, together with its neighbour in the table"""
    out = []
    for i, a in enumerate(TABLE):
        b = TABLE[(i + 1) % len(TABLE)]
        out.append(sweep_case(a, b, "child"))
        rest = SWEEP_TEMPLATES[1:]
        for t in (rest if tier not in ("quick", "escalated") else [rest[i % len(rest)]]):
            out.append(sweep_case(a, b, t))
    return out


def _names_in(a, acc):
    if isinstance(a, list):
        if a and a[0] == "n":
            acc.append(PC.vname(int(a[1])))
        else:
            for x in a[1:]:
                _names_in(x, acc)
    return acc


def census(cases_):
    """how much of the name table one run draws: distinct names and the rarest name's number of constructions, in the
    random streams alone and with the deterministic sweep (reported as tags of one pseudo case)"""
    import collections

    rnd, full = collections.Counter(), collections.Counter()
    for c in cases_:
        if c.get("kind") != "expr" or "corpus" in c:
            continue
        ns = set(_names_in(c["build"], []))
        full.update(ns)
        if c.get("shape") != "name-sweep":
            rnd.update(ns)
    lo = lambda cnt: min((cnt.get(n, 0) for n in TABLE), default=0)  # noqa: E731
    return {"kind": "census", "table": len(TABLE), "distinct_random": sum(1 for n in TABLE if rnd.get(n)),
            "distinct_all": sum(1 for n in TABLE if full.get(n)), "min_uses_random": lo(rnd), "min_uses_all": lo(full),
            "lt3_random": sum(1 for n in TABLE if rnd.get(n, 0) < 3)}


def _cases(rng: random.Random, tier: str):
    out = _cases0(rng, tier)
    out.append(census(out))
    return out


def _cases0(rng: random.Random, tier: str):
    out = load_corpus() + [dict(c) for c in SPECIAL] + name_sweep(tier)
    n = {"quick": 9000, "escalated": 30000}.get(tier, 90000)
    for _ in range(n):
        g = Gen(random.Random(rng.randrange(1 << 60)))
        depth = g.rng.choice([1, 2, 2, 3, 3, 4, 5])
        r = g.rng.random()
        if r < 0.44:
            a = g.simple(depth)
        elif r < 0.78:
            a = g.free(depth)
        elif r < 0.975:
            a = g.tricky(min(depth, 3))
        else:
            a = g.malformed()
        out.append({"kind": "expr", "build": a})
    k = {"quick": 1900, "escalated": 5700}.get(tier, 19000)
    for i in range(k):
        g = Gen(random.Random(rng.randrange(1 << 60)))
        shape, a = g.modes(Gen.MODE_SHAPES[i % len(Gen.MODE_SHAPES)])
        out.append({"kind": "expr", "build": a, "shape": shape})
    for _ in range({"quick": 160, "escalated": 500}.get(tier, 1600)):
        g = Gen(random.Random(rng.randrange(1 << 60)))
        out.append({"kind": "expr", "build": g.repeated(), "shape": "repeated-name"})
    m = {"quick": 1500, "escalated": 5000}.get(tier, 15000)
    exprs = [c for c in out if c["kind"] == "expr"]  # (special cases have no token stream)
    for _ in range(m):
        base = rng.choice(exprs)
        out.append({"kind": "tokens", "from": base["build"], "mut_seed": rng.randrange(1 << 30)})
    return out


# ------------------------------------------------------------------------------------------ real code + oracle

def _walk(e):
    from y0.dsl import Fraction, Product, Sum

    yield e
    if isinstance(e, Product):
        for x in e.expressions:
            yield from _walk(x)
    elif isinstance(e, Sum):
        yield from _walk(e.expression)
    elif isinstance(e, Fraction):
        yield from _walk(e.numerator)
        yield from _walk(e.denominator)


def simple_divisions(e) -> bool:
    """every division has division-free, non-constant operands and is not itself a factor of a product"""
    from y0.dsl import Fraction, One, Product, Zero

    for x in _walk(e):
        if isinstance(x, Fraction):
            for op in (x.numerator, x.denominator):
                if isinstance(op, (One, Zero)) or any(isinstance(y, Fraction) for y in _walk(op)):
                    return False
        if isinstance(x, Product) and any(isinstance(f, Fraction) for f in x.expressions):
            return False
    return True


def _depth(e):
    from y0.dsl import Fraction, Product, Sum

    if isinstance(e, Product):
        return 1 + max(_depth(x) for x in e.expressions)
    if isinstance(e, Sum):
        return 1 + _depth(e.expression)
    if isinstance(e, Fraction):
        return 1 + max(_depth(e.numerator), _depth(e.denominator))
    return 0


def printer_sites(e):
    """which context-dependent printer call sites str(e) goes through (computed on the built object)"""
    from y0.dsl import CounterfactualVariable, Fraction, Probability, Product, Sum

    sites = set()
    for x in _walk(e):
        if isinstance(x, Sum) and isinstance(x.expression, Fraction):
            sites.add("sum>frac(parens=False)")
            if isinstance(x.expression.denominator, Product):
                sites.add("sum>frac(parens=False),product-denominator")
        if isinstance(x, Fraction):
            if isinstance(x.denominator, Product):
                sites.add("frac,product-denominator")
            if isinstance(x.numerator, Product):
                sites.add("frac,product-numerator")
            if isinstance(x.denominator, Sum):
                sites.add("frac,sum-denominator")
        if isinstance(x, Product) and any(isinstance(f, Fraction) for f in x.expressions):
            sites.add("product>frac-factor")
        if isinstance(x, Probability):
            vs = x.children + x.parents
            if x._help_level_2_distribution()[0]:
                sites.add("P[..] level-2")
            elif any(isinstance(v, CounterfactualVariable) for v in vs):
                sites.add("P(..) mixed worlds")
            for v in vs:
                if isinstance(v, CounterfactualVariable):
                    sites.add("cf,one-intervention" if len(v.interventions) == 1 else "cf,several-interventions")
    return sites


ALL_SITES = ("sum>frac(parens=False)", "sum>frac(parens=False),product-denominator", "frac,product-denominator",
             "frac,product-numerator", "frac,sum-denominator", "product>frac-factor", "P[..] level-2", "P(..) mixed worlds",
             "cf,one-intervention", "cf,several-interventions")


def _tokens_case_text(case):
    """text of the mutated token string of a `tokens` case (None when the base construction does not build)"""
    try:
        e = PC.build(case["from"])
        toks = PC.tokens_of(str(e))
    except Exception:
        return None
    return _mutate_tokens(random.Random(case["mut_seed"]), toks)


def _in_token_fragment(toks):
    """token strings on which PyParse claims to agree with Python: no trailing comma, no empty tuple, no top-level comma"""
    depth = 0
    prev = None
    for t in toks:
        if t in ("rp", "rb") and prev == "cm":
            return False
        if t == "rp" and prev == "lp":
            # `()` is an empty argument list only directly after something callable; otherwise an empty tuple
            pass
        if t in ("lp", "lb"):
            depth += 1
        if t in ("rp", "rb"):
            depth -= 1
        if t == "cm" and depth == 0:
            return False
        prev = t
    # empty tuple: `lp rp` not preceded by a primary end
    for i in range(len(toks) - 1):
        if toks[i] == "lp" and toks[i + 1] == "rp":
            before = toks[i - 1] if i > 0 else None
            if before is None or before in ("lp", "lb", "cm", "pl", "mi", "ti", "at", "st", "sl", "ba", "am"):
                return False
    return True


def _run_tokens(case):
    toks = _tokens_case_text(case)
    if toks is None:
        return {"out": ["skip"], "fail": None, "nontrivial": False, "tags": {"kind": "tokens", "tok_outcome": "unbuildable"}}
    text = PC.text_of_tokens(toks)
    try:
        a = PC.ast_of(text)
        out = ["ok", PC.to_str_tree(a)] if _in_token_fragment(toks) else ["skip"]
        oc = "python-accepts" if out[0] == "ok" else "outside-fragment"
    except PC.OutsideFragment:
        out, oc = ["skip"], "outside-fragment"
    except (SyntaxError, ValueError, MemoryError, RecursionError):
        out, oc = ["err"], "python-rejects"
    return {"out": out, "fail": None, "nontrivial": out[0] == "ok" and len(toks) >= 6, "tags": {"kind": "tokens", "tok_outcome": oc}}


def _run_special(case):
    """inputs outside the name table of the case language that the library itself produces"""
    from y0.dsl import PP, TARGET_DOMAIN, A
    from y0.parser import parse_y0

    e = PP[TARGET_DOMAIN](A)        # what transport estimands are tagged with (y0.algorithm.transport)
    s = str(e)
    fail = None
    try:
        p = parse_y0(s)
        if p != e or str(p) != s:
            fail = f"parse_y0({s!r}) = {str(p)!r} is not the original object"
    except BaseException as x:  # SyntaxError
        fail = f"parse_y0({s!r}) raised {type(x).__name__}: the population name of TARGET_DOMAIN is not a Python identifier"
    return {"out": ["special"], "fail": fail, "nontrivial": False, "tags": {"kind": "special"}}


def _cap(n, hi):
    return str(n) if n < hi else f"{hi}+"


def tree_tags(a):
    """which operator shapes / sizes / names a CONSTRUCTION tree contains, computed on the tree itself (not by the
    generator), so that the evidence shows what is really produced"""
    t = {"op_matmul_on_prob": False, "op_matmul_on_pp": False, "op_matmul_on_dist": False, "op_matmul_dist_among_args": False,
         "op_or_and_joint": False, "op_chained_or": False, "op_and_tuple": False, "op_and_on_conditional": False,
         "op_unary_on_cf": False, "op_double_unary": False, "op_matmul_after_unary_cf": False, "op_subscript_and_matmul": False}
    size = {"ivs": 0, "subscripts": 0, "ranges": 0, "args": 0}
    names, pops = [], []

    def is_dist(x):
        return x[0] == "bin" and (x[1] in ("bor", "band") or (x[1] == "matmul" and is_dist(x[2])))

    def is_cf(x):
        return (x[0] == "bin" and x[1] == "matmul" and not is_dist(x[2]) and x[2][0] != "call") or (x[0] == "un" and is_cf(x[2]))

    def has_bor(x):
        return x[0] == "bin" and (x[1] == "bor" or (x[1] in ("band", "matmul") and has_bor(x[2])))

    def tlen(x):
        return len(x) - 1 if x[0] == "tup" else 1

    def walk(x):
        tag = x[0]
        if tag == "n":
            names.append(PC.vname(int(x[1])))
            return
        if tag == "k":
            return
        if tag == "un":
            if x[2][0] == "un":
                t["op_double_unary"] = True
            if is_cf(x[2]):
                t["op_unary_on_cf"] = True
            walk(x[2])
            return
        if tag == "bin":
            op, l, r = x[1], x[2], x[3]
            if op == "matmul":
                size["ivs"] = max(size["ivs"], tlen(r))
                if l[0] == "call":
                    kind = PC._builder_kind(l[1])
                    if kind == "P":
                        t["op_matmul_on_prob"] = True
                    elif kind == "PP":
                        t["op_matmul_on_pp"] = True
                    f = l[1]
                    if kind in ("P", "PP") and f[0] == "sub" and f[1] != ["k", "PP"]:
                        t["op_subscript_and_matmul"] = True
                elif is_dist(l):
                    t["op_matmul_on_dist"] = True
                elif l[0] == "un" and is_cf(l[2]):
                    t["op_matmul_after_unary_cf"] = True
            elif op == "bor":
                if r[0] == "bin" and r[1] == "band":
                    t["op_or_and_joint"] = True
                if has_bor(l):
                    t["op_chained_or"] = True
            elif op == "band":
                if r[0] == "tup":
                    t["op_and_tuple"] = True
                if has_bor(l):
                    t["op_and_on_conditional"] = True
            walk(l)
            walk(r)
            return
        if tag == "sub":
            f, idx = x[1], x[2]
            if f == ["k", "PP"]:
                _names_in(idx, pops)
                walk(f)
                return
            if f == ["k", "Sum"]:
                size["ranges"] = max(size["ranges"], tlen(idx))
            elif PC._builder_kind(f) in ("P", "PP"):
                size["subscripts"] = max(size["subscripts"], tlen(idx))
            walk(f)
            walk(idx)
            return
        if tag == "call":
            args = x[2:]
            if PC._builder_kind(x[1]) in ("P", "PP"):
                size["args"] = max(size["args"], len(args))
                if len(args) >= 2 and any(a[0] == "bin" and a[1] == "matmul" and is_dist(a[2]) for a in args):
                    t["op_matmul_dist_among_args"] = True
            walk(x[1])
            for a in args:
                walk(a)
            return
        for y in x[1:]:
            walk(y)

    walk(a)
    ns = set(names)
    stems = [stem_of(n) for n in ns]
    t["names_outside_old_lists"] = _cap(len(ns - _OLD_LISTS), 4)
    t["names_same_stem_spellings"] = len(stems) != len(set(stems))
    t["names_pi_form_as_variable"] = any(stem_of(n) in ("Pi", "π") for n in ns)
    t["names_population_outside_old_lists"] = any(n not in _OLD_LISTS for n in pops)
    t["size_cf_interventions"] = _cap(size["ivs"], 5)
    t["size_P_subscripts"] = _cap(size["subscripts"], 6)
    t["size_sum_ranges"] = _cap(size["ranges"], 6)
    return t


def _slots(case):
    return {"dsl_form": PC.ALT_STYLES} if case.get("kind") == "expr" else {}


def _roundtrip_fail(e, seed):
    """the property's oracle on one built expression (real code only): None or the failure text"""
    from y0.dsl import Expression
    from y0.parser import parse_y0

    from ..oracles import print_eval as EV

    try:
        s = str(e)
    except Exception as x:  # noqa: BLE001
        return f"printing the built expression raised {type(x).__name__}: {str(x)[:100]}"
    try:
        p = parse_y0(s)
    except Exception as x:  # noqa: BLE001
        return f"parse_y0({s!r}) raised {type(x).__name__}: {str(x)[:120]}"
    if not isinstance(p, Expression):
        return f"parse_y0({s!r}) returned a {type(p).__name__}, not an expression"
    if p != e:
        why = EV.same_meaning(e, p, seed=seed + len(s))
        if why is not None:
            return f"meaning changed: {s!r} parses to {str(p)!r}; {why}"
    if simple_divisions(e):
        if p != e:
            return f"simple-division family: parse_y0({s!r}) = {str(p)!r} is not equal to the original object"
        if str(p) != s:
            return f"simple-division family: the parsed object prints {str(p)!r}, the original {s!r}"
    return None


def _alt_form(case, e, once, tags):
    """build the same construction in the alternative argument form recorded for the case; returns a failure or None"""
    from y0.dsl import Expression

    style = F.forms_of(case, _slots(case))["dsl_form"]
    tags["form_dsl_form"] = style
    if style == "baseline" or PC.to_source_alt(case["build"], style) == PC.to_source(case["build"]):
        tags["alt_form_result"] = "same source"
        return None
    try:
        e2 = PC.build_alt(case["build"], style)
    except Exception as x:  # noqa: BLE001 - documented equivalence of forms is dsl.py's business, not C12's
        tags["alt_form_result"] = "raises " + type(x).__name__
        return None
    try:
        same = e2 == e and str(e2) == str(e)
    except Exception:  # noqa: BLE001 - an object that cannot be printed is not equal to one that can
        same = False
    if same:
        tags["alt_form_result"] = "equal"
        return None
    tags["alt_form_result"] = "differs"
    if not isinstance(e2, Expression) or not once:
        return None
    f = _roundtrip_fail(e2, case.get("seed", 0))
    return None if f is None else f"built as {PC.to_source_alt(case['build'], style)}: {f}"


def run_python(case):
    from y0.dsl import CounterfactualVariable, Expression, Fraction, One, PopulationProbability, Probability, Product, QFactor, Sum, Zero
    from y0.parser import parse_y0

    from ..oracles import print_eval as EV

    if case["kind"] == "tokens":
        return _run_tokens(case)
    if case["kind"] == "special":
        return _run_special(case)
    if case["kind"] == "census":
        return {"out": ["census"], "fail": None, "nontrivial": False, "tags": {
            "kind": "census", "n_distinct_names (random streams)": f"{case['distinct_random']} of {case['table']}",
            "n_distinct_names (with the sweep)": f"{case['distinct_all']} of {case['table']}",
            "rarest name: constructions (random streams)": case["min_uses_random"],
            "names in < 3 constructions (random streams)": case["lt3_random"]}}
    tags = {"kind": "expr"}
    tags.update(tree_tags(case["build"]))
    try:
        e = PC.build(case["build"])
    except Exception as x:  # the construction is not a built expression: nothing to print
        tags["built"] = "raises " + type(x).__name__
        return {"out": {"built": ["err"]}, "fail": None, "nontrivial": False, "tags": tags}
    if not isinstance(e, Expression):
        tags["built"] = "not an Expression"
        return {"out": {"built": ["err"]}, "fail": None, "nontrivial": False, "tags": tags}
    tags["built"] = "ok"
    s = str(e)
    enc_e = PC.to_str_tree(PC.enc_expr(e))
    once = PN.names_once(case["build"])
    # `domain`: the theorems' hypotheses hold of every object built from a names-once construction (outside: not claimed)
    out = {"built": ["ok", enc_e], "domain": "true" if once else "not-claimed", "names_once": "true" if once else "false"}
    tags["names_once"] = once
    try:
        out["tokens"] = PC.tokens_of(s)
    except Exception as x:  # a name outside the parser's table, a character outside Python's token alphabet
        out["tokens"] = ["not-tokens", type(x).__name__]
    try:
        out["ast"] = ["ok", PC.to_str_tree(PC.ast_of(s))]
    except (SyntaxError, PC.OutsideFragment):
        out["ast"] = ["err"]
    fail = None
    p = None
    try:
        p = parse_y0(s)
        if isinstance(p, Expression):
            out["reparsed"] = ["ok", PC.to_str_tree(PC.enc_expr(p))]
        else:
            out["reparsed"] = ["err"]
            fail = f"parse_y0({s!r}) returned a {type(p).__name__}, not an expression"
    except Exception as x:
        out["reparsed"] = ["err"]
        fail = f"parse_y0({s!r}) raised {type(x).__name__}: {str(x)[:120]}"
    simple = simple_divisions(e)
    out["simple"] = "true" if simple else "false"
    if fail is None:
        if p != e:
            why = EV.same_meaning(e, p, seed=case.get("seed", 0) + len(s))
            if why is not None:
                fail = f"meaning changed: {s!r} parses to {str(p)!r}; {why}"
        if fail is None and simple:
            if p != e:
                fail = f"simple-division family: parse_y0({s!r}) = {str(p)!r} is not equal to the original object"
            elif str(p) != s:
                fail = f"simple-division family: the parsed object prints {str(p)!r}, the original {s!r}"
    if not once and fail is not None:
        tags["outside_quantifier_roundtrip"] = "fails: " + fail.split(":")[0][:40]
        fail = None                  # a repeated name: outside the property's quantifier, nothing is claimed
    alt_fail = _alt_form(case, e, once, tags)
    fail = fail or alt_fail
    nodes = list(_walk(e))
    leaves = [x for x in nodes if isinstance(x, (Probability, QFactor, One, Zero))]
    has = lambda cls: any(isinstance(x, cls) for x in nodes)  # noqa: E731
    allvars = [v for x in nodes if isinstance(x, Probability) for v in x.children + x.parents]
    tags.update({
        "top": type(e).__name__, "depth": _depth(e),
        "family": "simple-division" if simple and has(Fraction) else ("division-free" if simple else "nested/constant/factor division"),
        "has_product": has(Product), "has_sum": has(Sum), "has_fraction": has(Fraction), "has_Q": has(QFactor),
        "has_PP": has(PopulationProbability), "has_const": has(One) or has(Zero),
        "has_cf_var": any(isinstance(v, CounterfactualVariable) for v in allvars),
        "has_marked_var": any(v.star is not None for v in allvars),
        "has_level2_print": "P[" in s or "][" in s,
        "n_tokens": min(len(out["tokens"]) // 10 * 10, 100),
        "shape": case.get("shape", "random"),
        "roundtrip": "error" if out["reparsed"] == ["err"] else ("equal" if p == e else "same meaning, other object"),
        "size_children": _cap(max([len(x.children) for x in nodes if isinstance(x, Probability)] or [0]), 7),
        "size_parents": _cap(max([len(x.parents) for x in nodes if isinstance(x, Probability)] or [0]), 5),
        "size_Q": _cap(max([len(x.domain) + len(x.codomain) for x in nodes if isinstance(x, QFactor)] or [0]), 9),
    })
    sites = printer_sites(e)
    for st in ALL_SITES:
        tags["site " + st] = st in sites
    nontrivial = len(leaves) >= 2 and (has(Product) or has(Sum) or has(Fraction))
    return {"out": out, "fail": fail, "nontrivial": nontrivial, "tags": tags}


# ------------------------------------------------------------------------------------------ model side

def order_mode():
    """which `_get_key` the code under test has: the pinned one, or the total structural key of the `expr` family's
    fix (recognised by its helper `_variable_total_key`); the Lean interpreter is parametric in that order and no
    C12 theorem depends on it"""
    from y0 import dsl

    return "total" if hasattr(dsl, "_variable_total_key") else "pinned"


def request(case):
    if case["kind"] in ("special", "census"):
        return None
    if case["kind"] == "tokens":
        toks = _tokens_case_text(case)
        if toks is None:
            return None
        text = PC.text_of_tokens(toks)
        try:
            PC.ast_of(text)
            if not _in_token_fragment(toks):
                return None
        except PC.OutsideFragment:
            return None
        except (SyntaxError, ValueError, MemoryError, RecursionError):
            pass
        return C.enc(["print", "parse", ["t"] + toks])
    from y0.dsl import Expression

    try:
        e = PC.build(case["build"])
        if not isinstance(e, Expression):
            raise TypeError
    except Exception:
        return C.enc(["print", "eval", order_mode(), case["build"]])
    return C.enc(["print", "rt", order_mode(), case["build"], PC.enc_expr(e)])


def _res(x, norm=False):
    if x == "none":
        return None
    if x[0] == "err":
        return ["err"]
    return ["ok", x[1]]


def canon_model(case, rep):
    if case["kind"] == "tokens":
        return ["err"] if rep[0] == "err" else ["ok", rep[1]]
    if len(rep) == 2 or rep[0] == "err":      # reply of (print eval …)
        return {"built": _res(rep, norm=True)}
    _, built, toks, ast_, re_, dom, simp, once = rep
    return {"built": _res(built, norm=True), "domain": dom if once == "true" else "not-claimed", "tokens": list(toks[1:]), "ast": _res(ast_),
            "reparsed": _res(re_), "simple": simp, "names_once": once}


# ------------------------------------------------------------------------------------------ shrinking, keys

def _subtrees(a, path=()):
    yield path, a
    if isinstance(a, list):
        for i, x in enumerate(a):
            if isinstance(x, list):
                yield from _subtrees(x, path + (i,))


def _replace(a, path, new):
    if not path:
        return new
    b = list(a)
    b[path[0]] = _replace(a[path[0]], path[1:], new)
    return b


def shrink(case):
    if case["kind"] != "expr":
        return
    a = case["build"]
    seen = set()
    for path, node in _subtrees(a):
        if not isinstance(node, list):
            continue
        # hoist a child over its parent
        for x in node[1:]:
            if isinstance(x, list):
                cand = _replace(a, path, x)
                k = json.dumps(cand)
                if k not in seen and cand != a:
                    seen.add(k)
                    yield {"kind": "expr", "build": cand, "forms": case.get("forms", {})}
        # drop one argument / tuple element
        if node[0] in ("call", "tup") and len(node) > (3 if node[0] == "tup" else 2):
            for i in range(2 if node[0] == "call" else 1, len(node)):
                cand = _replace(a, path, node[:i] + node[i + 1:])
                if cand[0] == "tup" and len(cand) == 2:
                    continue
                k = json.dumps(cand)
                if k not in seen:
                    seen.add(k)
                    yield {"kind": "expr", "build": cand, "forms": case.get("forms", {})}


def finding_key(case, res):
    if case["kind"] == "special":
        return "C12:special:" + case["what"]
    if case["kind"] != "expr":
        return json.dumps(case, sort_keys=True)
    try:
        return "C12:" + PC.to_source(case["build"])
    except Exception:
        return json.dumps(case["build"])


MANIFEST = {
    "text": ("Proof, all three clauses at full strength for every expression built through the public DSL. Lean theorems about "
             "executable models of every to_y0() (token printer), of Python's expression grammar on the printed alphabet (precedence "
             "| < & < + - < * / @ < unary < call/subscript) and of eval(s, {}, LOCALS) over models of P/PP/Sum/Q/One/Zero/TARGET_DOMAIN, the variable "
             "operators and every __mul__/__truediv__ overload: (1) parse_print_ast(_cont): the printed tokens of every well-formed "
             "expression, followed by any continuation, parse to exactly the operator tree of the object - printing is unambiguous; "
             "(2) parse_print_den / parse_print_total: for every built expression (fractions of fractions, fraction factors, constants) "
             "parsing the printed form succeeds and the result has the same denotation in every family of distributions, with no "
             "positivity hypothesis; (3) parse_print_eq / parse_print_same_text: on the simple-division family the parsed object IS "
             "the original and prints the same text; (4) built_of_eval: every expression the (model of the) DSL builds from a "
             "construction tree over the public builders and operators that writes each name once per distribution (`namesOnce`, a "
             "decidable predicate on the tree, decided on every generated construction by the model and by an independent Python "
             "implementation) satisfies `built`, so (1)-(3) hold for everything built through the public DSL "
             "(construction_roundtrip_total, for the total sort key of the code under test; also for the pinned key). Not theorems: that "
             "the models agree with dsl.py / parser/internal.py / Python's own grammar - decided on every run by eight correspondence "
             "streams (objects built by the real operators, `tokenize` of str(e), `ast.parse` of str(e), parse_y0(str(e)), the `built`, "
             "simple-division and names-once predicates, Python's parser on mutated token strings) plus the oracle."),
    "note": ("Trusted: Lean kernel; axioms propext/Classical.choice/Quot.sound; the hand-written models tied to the code by sampling; the "
             "specification `den` (Spec/Sem); Python's tokenize/ast as the reference for its grammar. Four defects were found by this "
             "check and fixed (product denominators printed without parentheses; One/Zero missing from the parser's names; P[...] "
             "subscripts printed in frozenset order; PP[TARGET_DOMAIN](..) printed as 'PP[pi*](..)', which is not Python); the models "
             "describe the fixed code. "
             "User-chosen names outside the parser's table, empty Q factors and subscript lists naming a variable twice are outside "
             "the quantifier (see assumptions)."),
    "technique": ("Lean 4 theorems (fuel-bounded recursive-descent model of Python's grammar; induction over expressions with the "
                  "'printed form followed by any continuation' strengthening; algebra of ℚ for the meaning clause) + differential "
                  "correspondence with the real printers, tokenize, ast.parse, parse_y0 and the real operators + exact-rational "
                  "identity-testing oracle"),
}
