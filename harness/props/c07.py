"""C07 — ID* estimands equal the probability of the counterfactual event.

Correspondence: `y0.algorithm.identify.id_star` vs the Lean model `Y0.Cf.idStar` (Y0/Model/IdStar.lean on top of
Y0/Model/Cg.lean), under every iteration order of the worlds set and both iteration orders of district nodes.
Oracle (from the property statement): exact-rational functional SCMs with shared noise; the returned expression is
evaluated under the stated reading (outcome variables take the event's values, subscripts are literal values, a
summation variable binds same-named unstarred subscripts) and must equal P(event) in every sampled model; Zero must be
probability 0 in every sampled model; any exception other than Unidentifiable is a violation.
"""
from __future__ import annotations

import json
import random

from .. import common as C
from .. import enc_expr as E
from .. import gen_graph as G
from ..oracles import cf_common as K
from ..oracles import cf_fscm as S
from . import c18 as C18

PROP = "C07"
RULE = ("(10%: three structured streams on graphs with edges, conjuncts in shuffled (non-canonical) order -- 'worlds3': events that USE three counterfactual worlds; 'twins': two or three base variables each observed in a world w and factually / in a second world (two worlds sharing >= 2 base variables); 'refusal': bow / cf-twin / subscript-against-subscript events inside one district (lines 7-8 of ID*); most edgeless random graphs are re-drawn; 12%: structured 'districts' inputs -- a district {a, b} with a <-> b AND a -> b next to other districts, both a and b in the event) random ADMGs with 1-5 nodes x conjunctions of 1-4 counterfactual events over <=3 counterfactual worlds plus the "
        "factual world (shared/distinct subscripts, x / x' values, self-interventions, repeated variables); the paper "
        "examples (Shpitser-Pearl fig. 9, Tikka) and all past witnesses first; a small malformed stream. Every case is run "
        "under every iteration order of the worlds and both orders of district nodes. A case is non-trivial when the event "
        "has a counterfactual world, the graph has an edge and ID* went past line 3 (it built a counterfactual graph) "
        "and answered with an estimand, Zero from line 5, or 'unidentifiable'.")
ASSUMPTIONS = [
    "soundness is a THEOREM on four decidable fragments (Props/C07.lean; tests inFragmentB / inFragment2B / inFragment2RB / inFragment3B of "
    "Y0/Model/IdStar.lean, re-implemented by fragment_flags() below -- the first three on the graph alone, the last on the counterfactual "
    "graph the REAL make_counterfactual_graph builds -- and COMPARED with the model's answer on every case): "
    "fragment 1 (idstar_sound_fragment, idstar_answers_fragment, idstar_never_zero_fragment): all keys carry one subscript set, "
    "unstarred values and subscripts (the queries P(y_x), conjunctions allowed); fragment 2 (idstar_sound_fragment2): all keys carry "
    "one subscript set, values and subscripts of ANY polarity, and whenever line 6 fires no key with a starred value is a parent of "
    "a non-self-intervened node of the counterfactual graph and no node of that graph is self-intervened on a starred subscript "
    "(otherwise line 6 writes a starred symbol as an unstarred subscript: F10/M1, F10/M2); fragment 2R (idstar_sound_fragment2R): "
    "events with any number of worlds that violate effectiveness, consist of tautologies, or are reduced to fragment 2 by line 3; "
    "fragment 3 (idstar_sound_fragment3): events that are still multi-world after line 3 whose counterfactual graph has at most one "
    "non-self-intervened node per variable, no non-self-intervened node named like a subscript, mutually consistent subscripts, the "
    "diagram's bidirected edges between its non-self-intervened nodes, and on which lines 6 / 9 keep the polarities (Frag3At). "
    "For every functional SCM compatible with the graph (normalised noise, mechanisms bounded by a finite domain) the returned "
    "expression, read by `cden2` (Lemmas/CfStarLit.lean: the reading of the property -- outcome variables take the event's values, "
    "an unstarred subscript is the literal x unless an enclosing Sum binds it, a starred one the literal x'), equals P(event). "
    "The harness reports the share of generated cases per fragment (tag coverage: ~34% / ~34% / ~12% / ~7% of the quick stream, ~86% "
    "together) and treats ANY oracle failure inside them as a violation regardless of the finding keys (key IN-FRAGMENT is never listed)",
    "single-world events (tag one_world, ~72% of the stream): ID* never refuses (idstar_answers_oneworld) and returns Zero iff "
    "line 2 fires (idstar_zero_iff_line2_oneworld, idstar_zero_sound_oneworld) -- both are checked on the real code on every "
    "single-world case (kinds 'refusal', 'zero-iff-line2', never listed); under the CONFLATING reading (an unstarred subscript -X "
    "denotes the value the event gives X) the estimand of EVERY single-world event is P(event) (idstar_sound_oneworld_conflating), "
    "i.e. on single-world events F10 is exactly the lost polarity of the subscripts line 6 writes",
    "OUTSIDE the fragments (single-world events on which line 6 loses a polarity: ~4%; events that are still multi-world after line 3, "
    "violate Frag3At and get an estimand: ~6%) soundness of the estimand has NO theorem and is false on the current tree (F10: 86% resp. "
    "88% of these events get a wrong answer; tools/c07_boundary.py): decided by correspondence + exact evaluation on 8 sampled functional SCMs per case (cardinalities 2-3); "
    "the known wrong answers are listed in known_findings.jsonl. Zero: for every event Zero comes from line 2, line 5 or from line 2 "
    "of a recursive call on a district event (idstar_zero_origin); the first two are sound by theorem (idstar_zero_sound_partial), "
    "the third kind is decided by the oracle (open findings of kind 'zero'). Refusals: ID* refuses iff line 8 of the top-level "
    "call finds a conflict (idstar_refusal_iff_conflict); recursive calls never refuse",
    "reading of an estimand: a free outcome variable takes the event's value for that variable; when the event gives the "
    "variable both values (x in one world, x' in another) the reading is ambiguous and the oracle accepts the estimand if "
    "SOME choice (per leaf) works in all sampled models; subscripts: +X is the literal x'; -X is the value bound by an "
    "enclosing Sum over X, else the literal x -- the oracle also accepts the strictly literal reading (both conventions "
    "are tried, the estimand passes if one of them is right in all sampled models); a variable that is neither bound nor "
    "valued by the event must not influence the value (all its values are tried)",
    "'otherwise refuses with unidentifiable': whether the refused events are really unidentifiable is not checked (no independent "
    "identifiability decision procedure for counterfactual events); proved: a refusal is raised by line 8's conflict test of the "
    "top-level call and by nothing else (idstar_refusal_iff_conflict), never on a single-world event",
    "termination: the model recurses on a fuel (2|V| + |event| + 4); that the fuel is never exhausted is now a THEOREM "
    "(Props/C07.lean idstar_terminates / idstar_never_out_of_fuel / idstar_outcomes) for well-formed graphs without self-loop "
    "edges and well-formed events (GoodEv: keys are variables of the graph with consistent subscript sets), every iteration "
    "order; events with a variable outside the graph or with contradictory subscripts (x and x' in one subscript set) are "
    "outside that theorem and are covered by the correspondence only",
    "Product.safe orders factors by a partial key with ties in set-iteration order: factor order is not modelled, products "
    "are compared as multisets",
    "known findings: keys by minimal shrunk events did not converge (30 minimal forms after ~150 000 cases, a new one every "
    "~20 000 cases), so a wrong value / wrong Zero is LOCATED instead: the recursion tree of the real id_star is recorded, "
    "every recursive call is judged on its own event by the same exact oracle, and the failure is blamed on a wrong call all of "
    "whose sub-calls are right; the key is (failure kind, step of the blamed call: line 6 or line 9, first of the known defect "
    "patterns present at that step: M1 starred event value -> unstarred subscript, M2 starred self-intervention -> unstarred "
    "subscript, M3a two copies of a variable in one district, M3b a subscript cannot tell copies of a variable apart, M3c "
    "unobserved copy not summed, M5 pillow variable also in the district, D1 two copies reach line 9, D2 several worlds get the "
    "union of subscripts). A blamed step that shows NONE of the patterns gets the key 'none', which is never listed, i.e. it is "
    "reported as a new violation; a failure that cannot be located (crashes, other steps) is keyed by its shrunk input as "
    "before. Attribution to a listed finding needs TWO things: the blamed step shows a listed pattern AND the Lean model -- the "
    "correspondence-checked copy of the code the findings were written about -- returns the very same answer on that input under the "
    "same iteration order (one driver call per failing input); a wrong answer that differs from the model's gets the never-listed key "
    "[differs-from-the-wrong-answer-of-the-modelled-code, ...] and shrinking keeps that key.  A new defect that only ever co-occurs "
    "with a listed pattern at the same step AND leaves the answer of the unchanged code untouched there would still be masked",
    "vocabulary: an estimand with a term that mixes variables of different worlds is a failure of kind 'vocabulary' whatever its value "
    "(a counterfactual joint distribution is not an interventional term: nothing has been identified, and the reading convention of the "
    "property -- 'literal values for intervention subscripts' of a term -- does not apply to it); the unchanged code never returns one "
    "(idstar_vocab, Props/C06Cf.lean); seeded/C06b is caught by this clause with a concrete replay",
]
EXHAUSTIVE = {"quick": False, "thorough": True}   # thorough: every graph on <=2 nodes x every event with <=2 conjuncts
LEANCHECK_MODULES = ["Y0.Model.Cg", "Y0.Model.IdStar", "Y0.Props.C07"]

X, W, Y, D, Z = C18.X, C18.W, C18.Y, C18.D, C18.Z
v = K.mkvar
CORPUS = [
    {"g": C18.FIG9A, "event": [[v(Y, [(X, "p"), (Z, "m")]), "p"], [v(X), "m"]]},
    {"g": C18.FIG9A, "event": [[v(Y, [(X, "m")]), "m"], [v(X), "p"], [v(Z, [(D, "m")]), "m"], [v(D), "m"]]},
    {"g": C18.FIG9A, "event": [[v(D, [(D, "p")]), "p"]]},
    {"g": C18.FIG9A, "event": [[v(X, [(X, "m")]), "p"]]},
    {"g": C18.CHAIN, "event": [[v(Z, [(D, "m")]), "m"], [v(Z), "p"], [v(D), "m"]]},
    {"g": {"nodes": [0, 1], "di": [[0, 1]], "bi": []}, "event": [[v(1, [(0, "m")]), "m"], [v(1, [(0, "p")]), "p"]]},
    {"g": C18.TIKKA2, "event": [[v(Y, [(X, "m")]), "m"], [v(Z, [(X, "m")]), "m"], [v(X), "p"]]},
    {"g": {"nodes": [0, 1], "di": [[0, 1]], "bi": []}, "event": [[v(0), "p"], [v(1), "m"]]},       # F10: polarity lost
    {"g": {"nodes": [0, 1], "di": [[1, 0]], "bi": []}, "event": [[v(0, [(1, "m")]), "m"], [v(0), "p"]]},
    {"g": {"nodes": [0, 1], "di": [[0, 1]], "bi": [[0, 1]]}, "event": [[v(1), "m"]]},
    {"g": {"nodes": [0, 1], "di": [[0, 1], [1, 0]], "bi": []}, "event": [[v(1, [(0, "m")]), "m"]], "malformed": "cyclic"},
]


def _gen_districts(rng: random.Random):
    """structured: a counterfactual graph with >= 2 districts one of which has an INTERNAL directed edge: nodes a, b joined by
    a bidirected edge AND a -> b (one district {a, b}), further nodes in districts of their own, directed edges between
    the districts; the event mentions both a and b (so line 6 sees the district {a, b} with a parent inside it) in at most one
    counterfactual world, mostly unstarred values (inside the ID* fragment the answer must be exact)"""
    n = rng.choice([3, 3, 4, 4, 5])
    order = list(range(n))
    rng.shuffle(order)
    a, b = order[0], order[1]
    if rng.random() < 0.5:            # put something in front of the district
        order = order[2:3] + [a, b] + order[3:]
    di, bi = [[a, b]], [[a, b]]
    for i in range(n):
        for j in range(i + 1, n):
            e = [order[i], order[j]]
            if e != [a, b] and rng.random() < 0.45:
                di.append(e)
    rest = [v_ for v_ in order if v_ not in (a, b)]
    if len(rest) >= 2 and rng.random() < 0.3:
        bi.append(rest[:2])
    g = {"nodes": sorted(order), "di": di, "bi": bi}
    w = ()
    if rest and rng.random() < 0.6:
        w = tuple(sorted((x, "m" if rng.random() < 0.85 else "p") for x in rng.sample(rest, rng.choice([1, 1, 2][:len(rest)] or [1]))))
    val = lambda: "m" if rng.random() < 0.85 else "p"    # noqa: E731
    keys = [a, b] + [x for x in rest if x not in {y for y, _ in w} and rng.random() < 0.5]
    ev = [[K.mkvar(k, tuple(p_ for p_ in w if p_[0] != k)), val()] for k in keys]
    return g, K.sort_event(ev)


def _ladder(rng: random.Random, n, p_di=0.25, p_bi=0.15):
    """acyclic ADMG along a shuffled order, consecutive nodes mostly joined by a directed edge: never edgeless"""
    order = list(range(n))
    rng.shuffle(order)
    di = [[order[i], order[i + 1]] for i in range(n - 1) if rng.random() < 0.8]
    for i in range(n):
        for j in range(i + 2, n):
            if rng.random() < p_di:
                di.append([order[i], order[j]])
    bi = [[order[i], order[j]] for i in range(n) for j in range(i + 1, n) if rng.random() < p_bi]
    return {"nodes": sorted(order), "di": di, "bi": bi}, order


def _gen_worlds3(rng: random.Random, tier):
    """structured: events that USE THREE counterfactual worlds (at least one conjunct per world, optionally a factual one) on a graph
    with edges; the worlds share variables with other values half of the time; conjuncts listed in a shuffled (non-canonical) order"""
    n = rng.choice([3, 4, 4, 5] if tier == "quick" else [3, 4, 4, 5, 5, 6])
    g, order = _ladder(rng, n)
    star = lambda p_=0.35: "p" if rng.random() < p_ else "m"    # noqa: E731
    worlds = []
    while len(worlds) < 3:
        if worlds and rng.random() < 0.5:
            w0 = rng.choice(worlds)
            w = tuple((x, star(0.5)) for x, _ in w0)
        else:
            w = tuple(sorted((x, star()) for x in rng.sample(order, rng.choice([1, 1, 2]))))
        if w not in worlds:
            worlds.append(w)
    ev = {}
    for w in worlds + ([()] if rng.random() < 0.5 else []):
        cand = [v_ for v_ in order if v_ not in {x for x, _ in w}] or order
        var = K.mkvar(rng.choice(cand), w)
        ev[C.enc(var)] = [var, star()]
    ev = list(ev.values())
    rng.shuffle(ev)
    return g, ev


def _gen_twins(rng: random.Random):
    """structured: 'twin' events -- a world w and two or three base variables B, each observed in w AND factually / in a second world
    w' ({Y_x, Z_x, Y, Z}): two worlds share >= 2 base variables, the counterfactual-counterfactual merge loop and line 6 with several
    copies per district are exercised; values equal or different; shuffled order"""
    n = rng.choice([3, 4, 4, 5])
    g, order = _ladder(rng, n, p_bi=0.2)
    star = lambda p_=0.35: "p" if rng.random() < p_ else "m"    # noqa: E731
    xs = rng.sample(order[:-1], rng.choice([1, 1, 2]) if n > 3 else 1)
    w = tuple(sorted((x, star()) for x in xs))
    free = [v_ for v_ in order if v_ not in xs]
    bases = rng.sample(free, min(len(free), rng.choice([2, 2, 3])))
    w2 = () if rng.random() < 0.6 else tuple((x, "p" if s_ == "m" else "m") for x, s_ in w)
    ev = {}
    for b in bases:
        a = star()
        for ww, val in ((w, a), (w2, a if rng.random() < 0.6 else ("p" if a == "m" else "m"))):
            var = K.mkvar(b, ww)
            ev[C.enc(var)] = [var, val]
    ev = list(ev.values())
    rng.shuffle(ev)
    return g, ev


def _gen_refusal(rng: random.Random):
    """structured: events that reach lines 7-8 of ID* (a single-district counterfactual graph whose subscripts contradict the values
    / subscripts of the event): the bow {Y_x = y, X = x'}, cf twins {Y_x = y, Y_{x,w} = y'}, a subscript against a subscript
    {Y_x, Z_{x'}} inside one district, on bows / hedges / bidirected chains of 3-4 nodes"""
    n = rng.choice([2, 3, 3, 4])
    order = list(range(n))
    rng.shuffle(order)
    x, y = order[0], order[1]
    di, bi = [[x, y]], [[x, y]]
    for i, v_ in enumerate(order[2:]):
        prev = order[i + 1]
        bi.append([prev, v_]) if rng.random() < 0.7 else None     # bidirected chain: one district
        if rng.random() < 0.5:
            di.append([rng.choice(order[:i + 2]), v_])
    g = {"nodes": sorted(order), "di": di, "bi": [e for e in bi if e]}
    s_ = "p" if rng.random() < 0.5 else "m"
    o = "p" if s_ == "m" else "m"
    val = lambda: "m" if rng.random() < 0.6 else "p"    # noqa: E731
    kind = rng.choice(["bow", "bow", "twins", "subsub"])
    if kind == "bow":
        ev = [[K.mkvar(y, ((x, s_),)), val()], [K.mkvar(x), o]]
    elif kind == "twins" and n >= 3:
        w_ = order[2]
        ev = [[K.mkvar(y, ((x, s_),)), "m"], [K.mkvar(y, tuple(sorted(((x, s_ if rng.random() < 0.5 else o), (w_, val()))))), "p"]]
    else:
        z = order[2] if n >= 3 else y
        ev = [[K.mkvar(y, ((x, s_),)), val()], [K.mkvar(z, ((x, o),)), val()]] if z != y else \
            [[K.mkvar(y, ((x, s_),)), "m"], [K.mkvar(y, ((x, o),)), "p"]]
    if n >= 3 and rng.random() < 0.4:
        ev.append([K.mkvar(order[-1]), val()])
    seen = {}
    for var, v2 in ev:
        seen.setdefault(C.enc(var), [var, v2])
    ev = list(seen.values())
    rng.shuffle(ev)
    return g, ev


def cases(rng: random.Random, tier: str):
    out = [dict(c, seed=2000 + i) for i, c in enumerate(CORPUS)]
    out += K.load_corpus("C07")
    n = 2000 if tier == "quick" else 6000
    for _ in range(n):
        big = rng.random() < (0.12 if tier == "quick" else 0.3)
        if rng.random() < 0.12:
            g, ev = _gen_districts(rng)
            out.append({"g": g, "event": ev, "seed": rng.randrange(1 << 30), "gen": "districts"})
            continue
        r_ = rng.random()
        if r_ < 0.10:
            gen, (g, ev) = ("worlds3", _gen_worlds3(rng, tier)) if r_ < 0.035 else \
                ("twins", _gen_twins(rng)) if r_ < 0.07 else ("refusal", _gen_refusal(rng))
            out.append({"g": g, "event": ev, "seed": rng.randrange(1 << 30), "gen": gen})
            continue
        g = K.rand_admg(rng, 1, 5 if big else 4)
        if not g["di"] and not g["bi"] and rng.random() < 0.6:
            g = K.rand_admg(rng, 2, 5 if big else 4)     # a third of the random graphs had no edge at all: re-draw most of them
        ev = K.rand_event(rng, g, max_worlds=3 if rng.random() < 0.3 else 2, max_items=4 if big else 3)
        c = {"g": g, "event": ev, "seed": rng.randrange(1 << 30)}
        if rng.random() < 0.015 and g["di"]:
            c["g"] = dict(g, di=g["di"] + [[g["di"][0][1], g["di"][0][0]]])
            c["malformed"] = "cyclic"
        out.append(c)
    if tier == "thorough":
        out += K.exhaustive_event_cases(2, 2)
    return out


# ------------------------------------------------------------------------------------------ real code


class _recursion_guard:
    """id_star nests a few dozen frames on the <= 6-node graphs of the harness (proved bound of the recursion: 2|V|+3 calls,
    plus deepcopy / networkx frames below each).  A change that makes the recursion endless would otherwise climb to the
    interpreter's default limit of 1000 frames on every such input and on every shrink candidate (two mutants of campaign C
    exceeded the 900 s budget that way).  Inside the guard the limit is the current depth + 400; a RecursionError is an
    ordinary 'err' outcome (a crash on valid input), which the unchanged code never produces."""

    def __enter__(self):
        import sys
        f, n = sys._getframe(), 0
        while f is not None:
            n += 1
            f = f.f_back
        self.old = sys.getrecursionlimit()
        sys.setrecursionlimit(max(n + 400, 300))

    def __exit__(self, *a):
        import sys
        sys.setrecursionlimit(self.old)
        return False


def _run_real(case, strategy):
    import networkx as nx
    from y0.algorithm.identify import Unidentifiable, id_star

    graph = G.to_nx_mixed(case["g"])
    event = K.dec_event(case["event"])
    try:
        with K.fixed_orders(strategy), _recursion_guard():
            est = id_star(graph, event)
    except Unidentifiable:
        return ["unidentifiable"], None
    except (nx.NetworkXException, KeyError, ValueError, TypeError, RuntimeError, ZeroDivisionError, RecursionError,
            AttributeError, IndexError) as e:
        return ["err"], type(e).__name__
    return ["ok", K.canon_expr(E.to_str_tree(E.enc_expr(est)))], None


def single_world(expr):
    """C06 (ID* part): every leaf mentions one world only"""
    for leaf in S.leaves(expr):
        ch, pa = (leaf[1], leaf[2]) if leaf[0] == "P" else (leaf[2], leaf[3])
        if len({json.dumps(x[4]) for x in ch + pa}) > 1:
            return False
    return True


def contradictory_subscripts(expr):
    """a leaf one of whose variables carries x and x' of the same variable in its subscript set, or None"""
    for leaf in S.leaves(expr):
        ch, pa = (leaf[1], leaf[2]) if leaf[0] == "P" else (leaf[2], leaf[3])
        for x in ch + pa:
            names = [int(n) for n, _ in x[4]]
            if len(set(names)) != len(names):
                return x
    return None


def _judge(case, res, exc, n_models):
    """(failure message, kind) for one result of the real code on an in-domain case"""
    g = {"nodes": G.all_nodes(case["g"]), "di": case["g"]["di"], "bi": case["g"]["bi"]}
    ev = case["event"]
    if res == ["unidentifiable"]:
        return None, None
    if res == ["err"]:
        return (f"id_star raised {exc}: neither an estimand, nor Zero, nor 'unidentifiable'"), f"crash:{exc}"
    expr = res[1]
    if expr == "zero":
        w = S.check_zero(g, ev, case.get("seed", 0), n_models=n_models)
        return (None, None) if w is None else (f"Zero returned for an event of positive probability: {w}", "zero")
    bad = contradictory_subscripts(expr)
    if bad is not None:
        # the evaluator has no opinion on such a term (it is not a distribution), so it must be rejected here
        return (f"estimand {expr} contains the term {bad} whose subscript set gives one variable both values: it denotes "
                "nothing, so it cannot equal P(event)"), "illformed"
    if not single_world(expr):
        # the property is about ESTIMANDS: expressions over interventional distributions, whose "intervention subscripts" the
        # reading convention speaks of.  A term whose variables carry different subscript sets is a joint distribution over
        # several worlds -- the very kind of quantity ID* exists to eliminate (its value may well equal P(event): so does the
        # event itself).  Never produced by the unchanged code (theorem idstar_vocab, Props/C06Cf.lean); never a listed finding.
        mixed = next(lf for lf in S.leaves(expr) if not single_world(lf))
        return (f"estimand {expr} contains the term {mixed} that mixes variables of different worlds: it is a counterfactual "
                "joint distribution, not an interventional term, so nothing has been identified"), "vocabulary"
    w = S.check_estimand(g, ev, expr, case.get("seed", 0), n_models=n_models)
    return (None, None) if w is None else (f"estimand {expr} differs from P(event): {w}", "value")


def _world_key(var):
    return json.dumps(sorted([int(n), s_] for n, s_ in var[4]))


def _violates_effectiveness(ev):
    """line 2 of ID*, from the paper: some conjunct V_S = v has V in S with the other polarity"""
    return any(int(n) == int(var[1]) and s_ != val for var, val in ev for n, s_ in var[4])


def _flags3(case):
    """[fragment 1, fragment 2, single-world]: the membership tests of Props/C07.lean (`inFragmentB`, `inFragment2B`, `oneWorldB` of
    Y0/Model/IdStar.lean), re-implemented on the GRAPH (no counterfactual graph is built here): the Lean driver is asked for the same
    three flags on every case and the correspondence check compares them, so the two implementations test each other.

    single-world: a non-empty event dict over variables of the graph all of whose keys carry ONE consistent subscript set.
    fragment 1:   single-world, every value and every subscript unstarred.
    fragment 2:   single-world (any polarity) and: the event violates effectiveness (line 2 answers), or -- with K the keys that
                  survive line 3, A the ancestors of K in the graph whose edges into the subscripted variables are cut, N = A minus
                  the subscripted variables -- N is one district (line 9 answers), or no key with a starred value has a child in N
                  and no variable with a starred subscript is in A (line 6 writes no starred symbol as an unstarred subscript)."""
    ev = case["event"]
    g = case["g"]
    nodes = set(G.all_nodes(g))
    if not ev or any(isinstance(val, (list, tuple)) for _, val in ev):
        return [0, 0, 0]
    keys = [C.enc(var) for var, _ in ev]
    if len(set(keys)) != len(keys) or any(int(var[1]) not in nodes or var[2] != "n" or str(var[3]) != "0" for var, _ in ev):
        return [0, 0, 0]
    if len({_world_key(var) for var, _ in ev}) != 1:
        return [0, 0, 0]
    subs = [(int(n), s_) for n, s_ in ev[0][0][4]]
    w = {}
    for n, s_ in subs:
        if w.setdefault(n, s_) != s_:
            return [0, 0, 0]
    f1 = int(all(val == "m" for _, val in ev) and all(s_ == "m" for s_ in w.values()))
    if _violates_effectiveness(ev):
        return [f1, 1, 1]
    ev2 = [(int(var[1]), val) for var, val in ev if int(var[1]) not in w]
    if not ev2:
        return [f1, 1, 1]
    try:
        S.topo_order(nodes, [tuple(e) for e in g["di"]])
    except ValueError:
        return [f1, 1, 1]      # cyclic graph: make_counterfactual_graph raises, nothing to keep clean
    pa = {}
    for u, v_ in g["di"]:
        pa.setdefault(v_, set()).add(u)
    anc, stack = set(), [k for k, _ in ev2]
    while stack:
        x = stack.pop()
        if x in anc:
            continue
        anc.add(x)
        if x not in w:
            stack.extend(pa.get(x, ()))
    nsi = {x for x in anc if x not in w}
    comp = {x: x for x in nsi}

    def find(x):
        while comp[x] != x:
            x = comp[x]
        return x
    for u, v_ in g["bi"]:
        if u in nsi and v_ in nsi:
            comp[find(u)] = find(v_)
    if len({find(x) for x in nsi}) == 1:
        return [f1, 1, 1]
    if any(val == "p" and any(u == k and v_ in nsi for u, v_ in g["di"]) for k, val in ev2):
        return [f1, 0, 1]
    if any(w[x] == "p" for x in anc if x in w):
        return [f1, 0, 1]
    return [f1, 1, 1]


def _good_event(case):
    """`GoodEv`: a dict whose keys are variables of the graph with consistent subscript sets, values named after their variables"""
    ev = case["event"]
    nodes = set(G.all_nodes(case["g"]))
    keys = [C.enc(var) for var, _ in ev]
    if len(set(keys)) != len(keys) or any(isinstance(val, (list, tuple)) for _, val in ev):
        return False
    for var, _ in ev:
        if int(var[1]) not in nodes or var[2] != "n" or str(var[3]) != "0":
            return False
        w = {}
        for n, s_ in var[4]:
            if w.setdefault(int(n), s_) != s_:
                return False
    return True


def remove_tautologies(ev):
    """line 3 of ID*, from the paper: drop the conjuncts V_S = v with V in S at the same polarity"""
    return [[var, val] for var, val in ev if not any(int(n) == int(var[1]) and s_ == val for n, s_ in var[4])]


def _frag3(case):
    """FRAGMENT 3 (`inFragment3B` / `Frag3At`, theorem idstar_sound_fragment3): a well-formed event that does not violate
    effectiveness, keeps a conjunct after line 3, and whose counterfactual graph g -- built here by the REAL
    make_counterfactual_graph from the event without its tautologies, worlds in sorted order; the driver builds it with the MODEL --
    satisfies: (a) at most one non-self-intervened node per variable; (b) no non-self-intervened node named like a subscript of a node
    of g; (c) the subscripts of the nodes of g are mutually consistent; (d) bidirected edges of the diagram between non-self-intervened
    nodes are edges of g; (e) line 9 (connected): the subscript by which a self-intervened node is intervened is a subscript of a
    non-self-intervened node; line 6: no starred-valued key is a parent of a non-self-intervened node and no node is
    self-intervened on a starred subscript."""
    import importlib

    ev = case["event"]
    if not ev or not _good_event(case) or _violates_effectiveness(ev):
        return 0
    red = remove_tautologies(ev)
    if not red:
        return 0
    g = case["g"]
    try:
        S.topo_order(set(G.all_nodes(g)), [tuple(e) for e in g["di"]])
    except ValueError:
        return 0
    cg = importlib.import_module("y0.algorithm.identify.cg")
    try:
        with K.fixed_world_order((0, 0)):
            cf, nev = cg.make_counterfactual_graph(G.to_nx_mixed(g), K.dec_event(red))
    except Exception:  # noqa: BLE001
        return 0
    if nev is None:
        return 0
    nodes = list(cf.nodes())
    nsi = [n for n in nodes if not _is_self_intervened(n)]
    si = [n for n in nodes if _is_self_intervened(n)]
    subs = {(i.name, bool(i.star)) for x in nodes for i in getattr(x, "interventions", ())}
    ok = len({n.name for n in nsi}) == len(nsi)
    ok = ok and not ({n.name for n in nsi} & {a for a, _ in subs})
    ok = ok and len({a for a, _ in subs}) == len(subs)
    bi = {frozenset((G.vname(u), G.vname(v_))) for u, v_ in g["bi"]}
    for i_, a in enumerate(nsi):
        for b in nsi[i_ + 1:]:
            if a.name != b.name and frozenset((a.name, b.name)) in bi and not cf.undirected.has_edge(a, b):
                ok = False
    if not ok:
        return 0
    if cf.subgraph(nsi).is_connected():
        nsub = {(i.name, bool(i.star)) for x in nsi for i in getattr(x, "interventions", ())}
        return int(all((i.name, bool(i.star)) in nsub for x in si for i in x.interventions if i.name == x.name))
    di = {(G.vname(u), G.vname(v_)) for u, v_ in g["di"]}
    starred = {k.name for k, val in nev.items() if val.star}
    if any((k, n.name) in di for k in starred for n in nsi):
        return 0
    return int(not any(i.star for x in si for i in x.interventions if i.name == x.name))


def fragment_flags(case):
    """[fragment 1, fragment 2, single-world, fragment 2R, fragment 3] (see _flags3, _frag3).  Fragment 2R: a well-formed event (any number of worlds)
    that violates effectiveness, or all of whose conjuncts are tautologies, or that line 3 reduces to an event of fragment 2
    (`inFragment2RB` / theorem idstar_sound_fragment2R)."""
    f = _flags3(case)
    ev = case["event"]
    r = 0
    if ev and _good_event(case):
        red = remove_tautologies(ev)
        r = int(_violates_effectiveness(ev) or not red or bool(_flags3(dict(case, event=red))[1]))
    return f + [r, _frag3(case)]


def in_fragment(case):
    """the NAMED FRAGMENT 1 of Props/C07.lean (`InFragment`): a non-empty well-formed event over variables of the graph all of
    whose keys carry ONE subscript set (possibly empty: all factual), with unstarred values and unstarred subscripts
    (P(y_x) with x, y the unstarred values).  Inside it ID* is proved sound, so ANY oracle failure there is a violation."""
    if not case["event"] or case.get("malformed") or not C18._in_domain(case):
        return False
    return bool(fragment_flags(case)[0])


def in_fragment2(case):
    """FRAGMENT 2 of Props/C07.lean (`InFragment2`, theorem idstar_sound_fragment2): single-world events of ANY polarity on which
    line 6 keeps the polarities (see fragment_flags).  Contains fragment 1.  ANY oracle failure inside it is a violation."""
    if not case["event"] or case.get("malformed") or not C18._in_domain(case):
        return False
    return bool(fragment_flags(case)[1])


def in_fragment2r(case):
    """FRAGMENT 2R (`InFragment2R`, theorem idstar_sound_fragment2R): events that lines 2-3 reduce to fragment 2.  Contains
    fragment 2.  ANY oracle failure inside it is a violation."""
    if not case["event"] or case.get("malformed") or not C18._in_domain(case):
        return False
    return bool(fragment_flags(case)[3])


def one_world(case):
    """single-world events (`OneWorld`): ID* never refuses there and returns Zero iff line 2 fires (theorems)"""
    if not case["event"] or case.get("malformed") or not C18._in_domain(case):
        return False
    return bool(fragment_flags(case)[2])


def _evaluate(case, n_models=8, with_unpatched=True):
    strategies = K.id_strategies(case["event"])
    by_order, excs, strat_of = [], {}, {}
    for s in strategies:
        r, exc = _run_real(case, s)
        by_order.append(r)
        excs[json.dumps(r)] = exc
        strat_of.setdefault(json.dumps(r), s)
    results = list(by_order)
    r0 = None
    if with_unpatched:
        r0, exc0 = _run_real(case, None)
        excs.setdefault(json.dumps(r0), exc0)
        strat_of.setdefault(json.dumps(r0), None)
        results = [r0] + results
    dom = C18._in_domain(case)
    fail = kind = strategy = None
    if dom:
        seen = []
        for r in results:
            if r in seen:
                continue
            seen.append(r)
            fail, kind = _judge(case, r, excs.get(json.dumps(r)), n_models)
            if fail:
                strategy = strat_of.get(json.dumps(r))
                break
    flags = fragment_flags(case)
    okc = bool(case["event"]) and not case.get("malformed") and dom
    frag, frag2s, ow = bool(okc and flags[0]), bool(okc and flags[1]), bool(okc and flags[2])
    frag2 = bool(okc and (flags[1] or flags[3] or flags[4]))
    if dom and ow and not fail:
        # theorems idstar_answers_oneworld / idstar_zero_iff_line2_oneworld: on a single-world event ID* never refuses, and it
        # returns Zero exactly when line 2 fires
        for r in results:
            if r == ["unidentifiable"]:
                fail, kind, strategy = "id_star refused a single-world event (it never does: idstar_answers_oneworld)", "refusal", \
                    strat_of.get(json.dumps(r))
                break
            if r[0] == "ok" and (r[1] == "zero") != _violates_effectiveness(case["event"]):
                fail, kind, strategy = ("on a single-world event Zero is returned iff the event violates effectiveness "
                                        "(idstar_zero_iff_line2_oneworld)"), "zero-iff-line2", strat_of.get(json.dumps(r))
                break
    return {"by_order": by_order, "unpatched": r0, "fail": fail, "kind": kind, "in_domain": dom, "strategy": strategy,
            "in_fragment": frag, "in_fragment2": frag2, "one_world": ow, "in_fragment2_strict": frag2s, "flags": flags,
            "in_fragment2r": bool(okc and flags[3]), "in_fragment3": bool(okc and flags[4])}


# ------------------------------------------------------------------------------------------ locating a failure in the recursion


def _call_tree(case, strategy):
    """run the real id_star under `strategy`, recording (without changing behaviour) the tree of recursive calls, the
    counterfactual graph each call built and the arguments / results of get_events_of_district (line 6)"""
    import importlib

    ids = importlib.import_module("y0.algorithm.identify.id_star")
    root = {"children": []}
    stack = [root]
    with K.fixed_orders(strategy):
        orig, orig_ged, orig_cg = ids.id_star, ids.get_events_of_district, ids.make_counterfactual_graph

        def rec(graph, event, **kw):
            node = {"event": dict(event), "children": [], "l6": [], "cg": None, "result": None}
            stack[-1]["children"].append(node)
            stack.append(node)
            try:
                node["result"] = orig(graph, event, **kw)
                return node["result"]
            except Exception as e:
                node["result"] = e
                raise
            finally:
                stack.pop()

        def ged(graph, district, event):
            r = orig_ged(graph, district, event)
            stack[-1]["l6"].append((graph, list(district), dict(event), dict(r)))
            return r

        def mcg(graph, event):
            r = orig_cg(graph, event)
            stack[-1]["cg"] = (r[0], None if r[1] is None else dict(r[1]))
            return r
        ids.id_star, ids.get_events_of_district, ids.make_counterfactual_graph = rec, ged, mcg
        try:
            try:
                rec(G.to_nx_mixed(case["g"]), K.dec_event(case["event"]))
            except Exception:
                pass
        finally:
            ids.id_star, ids.get_events_of_district, ids.make_counterfactual_graph = orig, orig_ged, orig_cg
    return root["children"][0]


def _node_fails(case, node):
    """is the answer of this (recursive) call wrong for ITS OWN event?  (the symbols an outer Sum binds are just values here)"""
    from y0.dsl import Expression

    if not isinstance(node["result"], Expression):
        return None
    c7 = {"g": case["g"], "event": K.enc_event(node["event"]), "seed": case.get("seed", 0)}
    if not c7["event"] or not C18._in_domain(c7):
        return None
    res = ["ok", K.canon_expr(E.to_str_tree(E.enc_expr(node["result"])))]
    for ds in (0, 7919):
        f, kind = _judge(dict(c7, seed=c7["seed"] + ds), res, None, 8)
        if f:
            return kind
    return None


def _blame(case, node):
    """a wrong call none of whose recursive calls is wrong: the step that breaks is in this call itself"""
    for ch in node["children"]:
        if _node_fails(case, ch):
            return _blame(case, ch)
    return node


def _is_self_intervened(v):
    return any(i.name == v.name for i in getattr(v, "interventions", ()))


def _independent_conflicts(nsi_nodes, event):
    """line 8 of ID* (Shpitser & Pearl), written from the paper, independent of get_conflicts: some subscript x of a node of
    the (non-self-intervened part of the) counterfactual graph and some x' among the values / subscripts of the event name the
    same variable with different values"""
    subs = {(i.name, bool(i.star)) for n in nsi_nodes for i in getattr(n, "interventions", ())}
    evid = {(val.name, bool(val.star)) for val in event.values()}
    evid |= {(i.name, bool(i.star)) for k in event for i in getattr(k, "interventions", ())}
    return sorted((a, sa, sb) for a, sa in subs for b, sb in evid if a == b and sa != sb)


def _local_class(node):
    """(step, tags): which step of the blamed call produced the answer and which of the known defect patterns are present
    there.  step 'line6' (district decomposition) / 'line9' (base case) / None (something else: keyed exactly)."""
    from y0.dsl import CounterfactualVariable

    if node["l6"]:
        tags = set()
        pillows = {}
        ev0 = node["l6"][0][2]
        ev_bases = {k.name for k in ev0}
        for graph, district, event, _ in node["l6"]:
            pillow = graph.get_markov_pillow(district)
            dbases = [d.name for d in district]
            if len(set(dbases)) < len(dbases):
                tags.add("M3a:two-copies-of-a-variable-in-one-district")
            for d in district:
                if d not in event and d.name in ev_bases:
                    tags.add("M3c:unobserved-copy-not-summed-because-another-copy-is-in-the-event")
            for p_ in pillow:
                pillows.setdefault(p_.name, set()).add(p_)
                if p_.name in dbases:
                    tags.add("M5:pillow-variable-also-in-the-district")
                if p_ in event:
                    if event[p_].star:
                        tags.add("M1:starred-event-value-becomes-unstarred-subscript")
                elif _is_self_intervened(p_):
                    if any(i.name == p_.name and i.star for i in p_.interventions):
                        tags.add("M2:starred-self-intervention-becomes-unstarred-subscript")
                elif p_.name in ev_bases:
                    tags.add("M3c:unobserved-copy-not-summed-because-another-copy-is-in-the-event")
        everyone = {}
        for _, district, _, _ in node["l6"]:
            for d in district:
                everyone.setdefault(d.name, set()).add(d)
        if any(len(v | everyone.get(b, set())) > 1 for b, v in pillows.items()):
            # a subscript made from a pillow node names its base only: it is indistinguishable from every other copy of
            # that variable in this call (another pillow node, a summed node, an event node)
            tags.add("M3b:subscript-cannot-tell-copies-of-a-variable-apart")
        return "line6", sorted(tags)
    if not node["children"] and node["cg"] is not None and node["cg"][1] is not None:
        cf = node["cg"][0]
        nsi = [n for n in cf.nodes() if not _is_self_intervened(n)]
        tags = set()
        if _independent_conflicts(nsi, node["cg"][1]):
            # lines 7-8 of ID*, re-implemented from the paper: an estimand although a subscript of the graph contradicts a
            # value / subscript of the event.  Never listed: the unmutated code refuses here.
            return "line9", ["A0:line-8-conflict-present-but-an-estimand-was-returned"]
        if len({n.name for n in nsi}) < len(nsi):
            tags.add("D1:two-copies-of-a-variable-reach-line-9")
        worlds = {frozenset(n.interventions) if isinstance(n, CounterfactualVariable) else frozenset() for n in nsi}
        if len(worlds) > 1:
            tags.add("D2:nodes-of-several-worlds-get-the-union-of-all-subscripts")
        return "line9", sorted(tags)
    return None, []


def _coarse_key(case, r):
    """finding key of a wrong value / wrong Zero located in the recursion: (kind, step of the blamed call, defect patterns
    present at that step); None when the failure cannot be located (then the shrunk input is the key)"""
    if r.get("in_fragment") or r.get("in_fragment2"):
        # never listed: the fragments are covered by theorems, nothing that fails inside them can be a known finding
        return json.dumps(["IN-FRAGMENT", 1 if r.get("in_fragment") else 3 if not (r.get("in_fragment2_strict") or
                                                                                  r.get("in_fragment2r")) else 2, r["kind"]])
    if r["kind"] in ("refusal", "zero-iff-line2"):
        return json.dumps(["ONE-WORLD", r["kind"]])
    if r["kind"] not in ("value", "zero"):
        return None
    try:
        node = _blame(case, _call_tree(case, r.get("strategy")))
    except Exception:
        return None
    step, tags = _local_class(node)
    if step is None:
        return None
    # the patterns overlap freely; the key names the first one present (fixed priority = sorted order), or "none"
    # (a step that is wrong without any of the known patterns is a NEW finding: that key is never listed)
    return json.dumps([r["kind"], step, tags[0] if tags else "none"])


def _same_wrong_answer_as_model(case, r):
    """A located wrong answer is attributed to a LISTED finding only when the Lean MODEL of id_star -- the correspondence-checked
    copy of the code the findings were written about -- gives the very same answer on this input under the same iteration order:
    the listed finding explains THAT wrong answer, not any other wrong answer the real code may give on an input on which the
    unchanged code is wrong as well.  Returns (same?, model's answer); (True, None) when the driver is not available."""
    try:
        m = canon_model(case, C.parse(C.LeanModel().ask(request(case))))
    except Exception:  # noqa: BLE001
        return True, None
    if not m or m[0] != "orders":
        return True, None
    mans = m[1]
    st = r.get("strategy")
    if st is None:
        return (r["unpatched"] in mans), (mans[0] if mans else None)
    strategies = [tuple(s_) for s_ in K.id_strategies(case["event"])]
    if tuple(st) not in strategies:
        return True, None
    i = strategies.index(tuple(st))
    if i >= len(mans) or i >= len(r["by_order"]):
        return True, None
    return r["by_order"][i] == mans[i], mans[i]


def _attributed_key(case, r):
    """(_coarse_key sharpened by the comparison with the model, text to append to the failure message)"""
    ck = _coarse_key(case, r)
    if ck is not None and r["kind"] in ("value", "zero") and json.loads(ck)[0] in ("value", "zero"):
        same, mans = _same_wrong_answer_as_model(case, r)
        if not same:
            # never listed: a wrong answer that is not the wrong answer of the code the findings describe
            return json.dumps(["differs-from-the-wrong-answer-of-the-modelled-code", json.loads(ck)]), \
                (" [the MODEL of id_star (Y0/Model/IdStar.lean), about which the listed finding was written, answers "
                 f"{json.dumps(mans)[:300]} on this input: the listed finding does not explain this wrong answer]")
    return ck, ""


SHRINK = K.Shrinker(PROP, ("event",), _evaluate, ("g", "event", "seed"))


def run_python(case):
    r = _evaluate(case)
    by_order = r["by_order"]
    ev = case["event"]
    distinct = []
    for x in by_order:
        if x not in distinct:
            distinct.append(x)
    r0 = r["unpatched"]
    first = by_order[0]
    shape = "err" if first == ["err"] else "unidentifiable" if first == ["unidentifiable"] else \
        ("zero" if first[1] == "zero" else "one" if first[1] == "one" else first[1][0])
    past3 = not (first[0] == "ok" and first[1] in ("one",)) and bool(ev)
    tags = {"n_nodes": len(G.all_nodes(case["g"])), "n_worlds": K.n_worlds(ev), "n_conjuncts": len(ev),
            "answer": shape, "order_dependent": len(distinct) > 1, "unpatched_differs": r0 not in by_order,
            "in_domain": r["in_domain"], "has_bidirected": bool(case["g"]["bi"]),
            "single_world_leaves": all(single_world(x[1]) for x in by_order if x[0] == "ok"),
            "failure_kind": r["kind"], "in_fragment": r["in_fragment"],
            "in_fragment_past_line3": bool(r["in_fragment"] and past3), "gen": case.get("gen", "random"),
            "in_fragment2": r["in_fragment2"], "in_fragment2_past_line3": bool(r["in_fragment2"] and past3),
            "coverage": ("not-in-domain" if not r["in_domain"] else "fragment1" if r["in_fragment"] else
                         "fragment2" if r["in_fragment2_strict"] else "fragment2R" if r["in_fragment2r"] else
                         "fragment3" if r["in_fragment3"] else "single-world-outside" if r["one_world"] else
                         "multi-world-" + ("zero" if shape == "zero" else "refused" if shape == "unidentifiable" else "estimand"))}
    nontrivial = r["in_domain"] and K.n_worlds(ev) >= 1 and bool(case["g"]["di"] or case["g"]["bi"]) and past3 and \
        shape in ("P", "sum", "prod", "unidentifiable", "zero")
    out = {"out": ["orders", by_order, r["flags"]], "fail": r["fail"], "nontrivial": bool(nontrivial), "tags": tags}
    ck, note = _attributed_key(case, r) if r["fail"] else (None, "")
    if ck is not None:
        out["fail"] += note
        out["finding_key"] = ck
    elif r["fail"] and not case.get("_noshrink"):
        small, key = SHRINK.shrink_to_key(case, r["kind"])
        out["shrunk"] = small
        out["finding_key"] = key
    elif r["fail"]:
        out["finding_key"] = SHRINK.key_of(case, r["kind"])
    return out


# ------------------------------------------------------------------------------------------ model side


def request(case):
    """C07's own cases ask for the estimands AND the fragment flags (op id_star_all_frag); cases of another check that re-uses this
    request function (C06 tags its cases with "src") get the plain op id_star_all"""
    g = case["g"]
    gs = C.graph_sexp(g["nodes"], g["di"], g["bi"])
    op = "id_star_all" if "src" in case else "id_star_all_frag"
    return C.enc(["cf", op, gs, case["event"], [list(s) for s in K.id_strategies(case["event"])]])


def _canon_one(rep):
    if rep[0] == "err":
        return ["unidentifiable"] if rep[1] == "unidentifiable" else ["err"]
    return ["ok", K.canon_expr(rep[1])]


def canon_model(case, rep):
    if rep[0] != "ok":
        return ["model-error", rep]
    if len(rep) > 1 and isinstance(rep[1], list) and rep[1] and rep[1][0] == "frag":
        return ["orders", [_canon_one(r) for r in rep[2:]], [int(x) for x in rep[1][1:]]]
    return ["orders", [_canon_one(r) for r in rep[1:]]]


def case_key(case):
    """the finding key of a failing input (used by C08 for failures it inherits from ID*); None if it does not fail"""
    r = _evaluate(case, with_unpatched=False)
    if not r["fail"]:
        return None
    ck = _coarse_key(case, r)
    if ck is not None:
        return ck
    return SHRINK.shrink_to_key(case, r["kind"])[1]


def _shrink_same_key(case, key0, budget=120):
    """greedy shrinking that keeps the LOCATED finding key (kind, blamed step, defect pattern): shrinking by failure kind alone
    can slide from a new defect into a neighbouring input that only shows a listed one (seen with conflict detection
    disabled: every replay shrank into F10/M1)"""
    cur = {k: case[k] for k in ("g", "event", "seed") if k in case}
    cur["g"] = {"nodes": G.all_nodes(cur["g"]), "di": cur["g"]["di"], "bi": cur["g"]["bi"]}
    improved = True
    while improved and budget > 0:
        improved = False
        for cand in K.shrink_event_case(cur, keys=("event",)):
            budget -= 1
            if budget <= 0:
                break
            try:
                r = _evaluate(cand, with_unpatched=False)
                ok = bool(r["fail"]) and _attributed_key(cand, r)[0] == key0
            except Exception:
                continue
            if ok:
                cur, improved = cand, True
                break
    return cur


def shrink(case):
    if case.get("_noshrink"):
        return
    r = _evaluate(case)
    if r["fail"]:
        key0 = _attributed_key(case, r)[0]
        if key0 is not None:
            small = _shrink_same_key(case, key0)
        else:
            small = SHRINK.shrink_fully(case, r["kind"])     # a small replay; the finding key is computed on the ORIGINAL input
        yield dict(small, _noshrink=True)


def finding_key(case, res):
    if res.get("finding_key"):
        return res["finding_key"]
    r = _evaluate(case)
    return _attributed_key(case, r)[0] or SHRINK.key_of(case, r["kind"])


MANIFEST = {
    "text": ("Partial proof. Lean theorems about the executable model of id_star.py (Y0/Model/IdStar.lean), for every graph, "
             "event, fuel and iteration order: line 2 is sound (an event violating effectiveness has probability 0 in every "
             "functional SCM), line 3 is sound (removing tautologies preserves the probability in every functional SCM), the "
             "line-3 recursion strictly shrinks the event and is taken at most once; error taxonomy and TERMINATION "
             "(idstar_terminates / idstar_outcomes: 2|V|+3 units of fuel are never exhausted; the outcomes are an estimand, Zero or "
             "'unidentifiable', nothing else); every leaf of a returned estimand is a single-world interventional term (C06 part). "
             "SOUNDNESS (in every compatible functional SCM the returned expression, under the reading of the property, equals "
             "P(event)) is proved on four decidable fragments: fragment 1 (one subscript set, unstarred values and subscripts: "
             "the queries P(y_x)), fragment 2 (one subscript set, ANY polarity of values and subscripts, provided line 6 -- when it "
             "fires -- finds no starred-valued key that is a parent of a non-self-intervened node of the counterfactual graph and no "
             "node self-intervened on a starred subscript), fragment 2R (events with any number of worlds that lines 2-3 reduce to "
             "fragment 2) and fragment 3 (events still multi-world after line 3 whose counterfactual graph has one non-self-intervened "
             "node per variable, none named like a subscript, consistent subscripts, and keeps the polarities): about 86% of the "
             "generated events, and the measured boundary of correctness of the real code (outside them 86-88% of the estimands are wrong). On EVERY single-world event the estimand is P(event) under the conflating "
             "reading (an unstarred subscript denotes the value the event gives the variable): there F10 is exactly the lost polarity "
             "of the subscripts line 6 writes; the measured boundary (tools/c07_boundary.py) coincides with the proved one. ZERO: on "
             "single-world events Zero is returned iff line 2 fires (sound); for every event Zero comes from line 2, line 5 (both "
             "sound) or line 2 of a recursive call on a district event (open: the findings of kind 'zero'). REFUSALS: ID* refuses "
             "iff line 8 of the top-level call finds a conflict; recursive calls never refuse; single-world events are never refused. "
             "Outside the fragments soundness of the estimand has NO theorem; on the current tree it is false (F10): the check decides "
             "it by correspondence with the real code plus exact evaluation on sampled functional SCMs, locates every wrong answer in "
             "the recursion of the real code and lists the known defect patterns (F10/M1-M5, D1-D2) as open findings; a wrong step "
             "that shows none of them is a new violation; any failure inside a fragment is a violation whatever its key."),
    "note": ("Trusted: Lean kernel + standard axioms; the hand-written models tied to the code by differential testing under "
             "all set-iteration orders (the fragment membership tests are part of the compared output); the reading convention of "
             "estimands stated in ASSUMPTIONS; sampled models (8 per case). One small defect was fixed (line 9 marginalisation, "
             "4295b26); the F10 family stays open: 10 finding keys for C07 (failure kind x step of the blamed recursive call x known "
             "defect pattern), each with a minimal example; a wrong answer is excused by a listed finding only if the model returns the same "
             "wrong answer on that input; an estimand with a multi-world term is a failure whatever its value."),
    "technique": "Lean 4 theorems (termination; soundness on single-world events of any polarity, on what lines 2-3 reduce to them and on multi-world events with a clean counterfactual graph, over all functional SCMs; Zero and refusal characterisations; lines 2-3-5; error taxonomy; vocabulary invariant) + differential correspondence + exact-rational functional-SCM oracle + located known findings",
}
