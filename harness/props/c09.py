"""C09 — counterfactual transportability (ctfTRu / ctfTR, Correa, Lee & Bareinboim 2022, Algorithms 2-4).

Correspondence: the complete procedures are compared with the Lean model (Y0.Model.CtfTr) on every case: the verdict of
the input validators (error category), and for accepted inputs FAIL / Zero / the answer of Algorithm 2 (`ctftr
uncond`: expression and simplified event, plus the flag `CtfTr.ctfTRuInClass` = "inside the decidable hypotheses of the
proved value clause ctfTRu_sound_partial": an in-class case whose value the exact oracle rejects is a disagreement,
whatever known-finding class its signature falls in) resp. Algorithm 3 (`ctftr cond`: the flag `CtfTr.ctfTRInClass` =
"inside the decidable hypotheses of the proved value clause ctfTR_sound_partial", tied to the oracle in the same way; the
derivation of D* from the ancestral components, Algorithm 2 on D* with its own validator, the Fraction of line 4, the returned event, the five final checks;
an exception after validation is category `internal`; the former crash classes of SIMPLIFY and Algorithm 3 are fixed in the
code, repo c8cad49 / 333fa44 / f335599, and their witnesses are regression cases in corpus/C09).  Expressions are compared structurally, then by exact
value on the case's model family; events as multisets.  The models of SIMPLIFY, the ctf-factor factorisation and Tian's
IDENTIFY are the `ctf` and `tian` families'.

Oracle (from the property statement, independent of y0 and of the model; harness/oracles/family_eval.py):
  (t) trichotomy: an input that passes the procedure's own validation is answered (expression + event) or refused
      (`None`); any exception after validation accepted the input is a failure; invalid inputs must be rejected by the
      validator with TypeError / ValueError / NotImplementedError;
  (z) zero only for impossible events: when the expression is Zero() the queried event must have probability 0 in a
      positive functional SCM;
  (v) value (a variable whose value is None stays a free variable of the answer and is read at its base value):
      the expression, evaluated on the declared domain distributions (target-compatible model, fresh mechanisms
      at selection-marked and policy variables, policy variables possibly cut from their parents) with the returned
      event's values, equals the target probability P*(event) (resp. P*(outcomes | conditions)) computed on the
      functional SCM by enumeration of the noise space.  Values: `-V` is the base value of V, `+V` another value.
      A variable that carries two different values in the returned event makes "the returned event's values" ambiguous:
      the check then fails only if NO choice of value gives the right number (sound, lenient).
      A name the expression depends on that the returned event does NOT bind is read at the value the QUERY gives it as
      a subscript (ctfTR returns base variables only, so the literal x of Y_x is known from the query alone); a name that
      is bound by neither (an event variable left out of the returned event, a variable foreign to the query) must not
      matter: the value has to be right for EVERY value of it (third round; catches a returned event that omits the
      conditions);
  (e) event (ctfTRu; third round): the returned event is the SIMPLIFIED query event - every variable in minimal form
      ||Y_x|| (harness's own ancestor code), no repeated item, a valueless copy of a valued variable absorbed; not judged
      on queries with a self-intervened variable (C19's open simplify-reflexive findings);
  (t') a validator may reject with TypeError / ValueError / NotImplementedError only: any other exception raised by the
      validator itself is a failure;
  (f) FAIL although transportable (fifth round; streams multi_domain / fallthrough only): the full domain list is refused
      although one entry of it alone answers the query with a value the exact oracle accepts.
"""
from __future__ import annotations

import itertools as itt
import json
import logging
import random
import traceback

import numpy as np

from .. import common as C
from .. import enc_expr as E
from .. import gen_graph as G
from ..oracles import family_eval as FE

PROP = "C09"
TARGET = FE.TARGET
RULE = ("target ADMGs with 2-5 nodes x 1-2 domains (selection diagram = the target graph, policy variables optionally cut "
        "from their parents, selection nodes on a random subset; valid topological orders; population tags pi1/pi2 or the "
        "target tag) x events of 1-3 counterfactual variables over V(G) with 0-2 subscripts and values -V / +V / None "
        "(unconditional) or outcome / condition lists (conditional); a structured SINGLE-WORLD stream (2-3 intervened variables "
        "joined by a directed path, e.g. X1->X2->W->Y, X1->Y, all event variables in the same world, 1-3 outcomes that are "
        "ancestors of one another, 1-2 domains; outside every known-finding class, so every answer is judged by the value "
        "oracle); a stream of source domains whose graph lacks a bidirected edge of the target (trichotomy clause only); "
        "third round (measured against the mutation table tools/c09_mutants.py): a TWO-DOMAIN stream (single-world events with "
        ">= 2 ctf-factors, each of two chosen factors transportable from exactly one of two domains - selection node or policy, "
        "cut or not, on the other domain's copy of the district -, further marks only outside the ancestral set or inside the "
        "blocked district, 1-5 bidirected edges so that districts of size >= 2, districts strictly inside their domain-graph "
        "district and districts with outside ancestors are frequent, independent topological orders per domain); a REDUNDANT "
        "stream (events SIMPLIFY changes: repeated item, valueless copy of a valued variable, causally irrelevant subscript); "
        "an INCONSISTENT-FACTOR stream (Definition 4.1 (i) / (ii) inside one district: FAIL is the only right answer); source "
        "mechanisms at marked variables are redrawn until every kernel row differs from the target's; "
        "fifth round (gap review): a MULTI-DOMAIN stream (3-4 source domains such that one chosen ctf-factor can be transported "
        "only from the LAST list entry, population tags in shuffled order pi1..pi6, a repeated record, a target-tagged entry with "
        "an uncut policy variable; one case in three conditional); a FALL-THROUGH stream (bow X -> Y, X <-> Y into the ctf-factor of "
        "Y_x: a usable domain in which IDENTIFY fails followed or preceded by a domain with a cut policy on X that succeeds, "
        "optionally a third unusable domain); a STRUCTURED CONDITIONAL stream (single-world events of 2-4 items over distinct "
        "variables split into outcomes and conditions, >= 3 conditions or >= 3 outcomes frequent, two-domain constructions); an "
        "ARGUMENT-FORMS stream (one Variable instead of a one-element list, CFTDomain(population=<Population>), ordering=None); "
        "the malformed stream damages a random entry of the domain list (also a cyclic DOMAIN graph); thorough tier only: 600 "
        "six-node graphs (<= 3 bidirected edges, binary variables) with the value oracle raised to 6 nodes; "
        "the worked examples of Correa et al. 2022 and the minimal witnesses of the mutation table as corpus; "
        "plus a malformed stream for every class of the validators (event / outcome / condition outside the graph, order with "
        "a wrong edge or a missing vertex, ...). A case is non-trivial when validation passes, the graph "
        "has >=3 nodes and some event variable has a subscript.")
ASSUMPTIONS = [
    "a PP[pi*] leaf of the answer is read on P*(V; sigma_Z) - the target model with the mechanisms of the declared policy "
    "variables replaced (pseudo-population TPOL of the oracle) - when EVERY target-tagged entry of the domain list declares the "
    "same non-empty policy; when plain target data are listed too the tag cannot tell them apart and the leaf is read as P*, "
    "which can hide a wrong choice of domain but never accuse a right one (stream target_policy, seeded/C09e)",
    "value clause, Algorithm 2: PROVED (Props/C09Sound ctfTRu_sound_partial; no hypothesis about any part of the algorithm) "
    "for validated inputs built by the public wrapper without a self-intervened variable whose simplified event has no "
    "valueless item and is in the decidable class CtfTr.ctfSoundClass (readable, not multi-world / literal-bound / "
    "outcome-parent-value (C19) / starred-literal-bound), for every family of functional SCMs compatible with the declared "
    "domains (Spec/CtfFamilySpec: positive discrete models, inert selection nodes, a source domain differs from the target "
    "only in the mechanisms at the children of its selection nodes and its policy variables; a differing noise distribution "
    "is represented by extra exogenous variables the target does not read; the declared distribution of each domain is the "
    "joint P^k(V) of its regular variables) and every valuation that carries the returned event's values (Ctf.EventReading; "
    "exists iff no name receives two values: ctf_reading_exists); with valueless items read as free variables: "
    "ctfTRu_sound_free_partial. FALSE outside the class (open findings value:two_values / multi_world / literal_bound / "
    "reflexive). The theorem is TIED to the oracle on every run: the driver reports CtfTr.ctfTRuInClass for every answered "
    "unconditional case, and an in-class case on which the exact oracle rejects the value is a disagreement, whatever "
    "known-finding class its signature falls in (seed 0: 4814 of 6728 answered unconditional cases are in the class)",
    "value clause, Algorithm 3: PROVED (Props/C09Sound ctfTR_sound_partial; both identities of ctfTR_sound_of_parts discharged: "
    "composition axiom for the edges cut at conditioned ancestors, marginalisation of the valueless ancestors and of the "
    "outcomes, independence of the ancestral components without an outcome; J = Q[V(D*)]) for validated queries built by the "
    "public wrapper inside the decidable class CtfTr.ctfTRSoundClass: (a) one world - across ALL ancestral components a vertex "
    "is named by one counterfactual variable only; (b) every outcome is a member of the components under its own name, i.e. is given in "
    "the minimal form the components store (OutcomesFound; since repo f335599 the code looks an outcome up under that form, "
    "so inside the class every outcome is its own lookup key: Lean lookup_self), two outcomes over one vertex are the same item "
    "(an outcome may share its vertex with a condition); (c) no query "
    "variable intervenes on itself or twice on one vertex with different values; (d) no literal subscript of the query names a "
    "vertex of the components unless it names a condition (else one of the two sums of line 4 captures it) - a predicate on "
    "target graph and query only; that the simplified D* (valueless ancestors as free variables) is then in Algorithm 2's "
    "class ctfSoundClass is proved (dstar_in_ctfSoundClass); for every compatible family of "
    "functional SCMs in which the conditions have positive probability and every valuation that reads the query's values and "
    "literal subscripts (Ctf.EventReading on outcomes ++ conditions; exists iff no name receives two value symbols). OPEN "
    "outside the class: FALSE on the findings cond:value:* (two_values / multi_world / literal_bound); not decided for "
    "multi-world queries that Algorithm 3 happens to answer correctly and for queries with an outcome that is not in minimal "
    "form (a causally irrelevant subscript: the former findings outcome-lookup-miss / outcome-also-condition are fixed, repo "
    "f335599, and the exact oracle accepts these answers, but the value theorem is proved for minimal outcomes only). The theorem is "
    "TIED to the oracle on every run: the driver reports CtfTr.ctfTRInClass for every answered conditional case, and an "
    "in-class case on which the exact oracle rejects the value is a disagreement whatever known-finding class its signature "
    "falls in",
    "reading of a valueless item of the QUERY: the oracle reads it as 'equal to its base value' (the item stays a free variable "
    "of the answer), C19 and the Lean theorems read it as 'no constraint'; the two agree when the query has no valueless "
    "item (the class of the tie); a valueless copy absorbed by a valued copy of the same variable is attributed to "
    "value:two_values by the oracle",
    "the models of SIMPLIFY, counterfactual ancestors, ancestral components, ctf-factors and IDENTIFY are the `ctf` / `tian` "
    "families' (C19, C17); Algorithm 3 is modelled completely (CtfTr.ctfTR: line2C, line4C, finalChecks) and compared with "
    "conditional_cft on every conditional case (verdict, expression, returned event)",
    "Python sets in Algorithm 3: the order of the derived event D* (iteration over a set of variables / of values) is a "
    "canonical one in the model; it reaches the result only as a permutation (events are compared as multisets, Product.safe "
    "and Sum ranges sort) and the VERDICT in two places: (a) Algorithm 2's transport loop stops at the first FAIL, so FAIL vs "
    "exception can depend on the order of the ctf-factors (only with domain graphs that lack a bidirected edge of the target: "
    "stream dropped_bi, not compared); (b) the dict of the final checks keyed by base name keeps the LAST of two entries of a "
    "vertex named in two worlds, once with and once without a value (CtfTr.finalChecksOrderSensitive; the driver reports it "
    "and then only the validator verdict is compared; PROVED impossible on an answer: ctfTR_simplified_binds_once - a vertex in two worlds makes Algorithm 2 answer FAIL before line 4)",
    "ctf_no_internal_error: PROVED for every validated input whose selection diagrams agree with the target graph, for both "
    "procedures, after three repairs of the code (repo c8cad49: SIMPLIFY drops a None that the merge of Y_y with Y leaves next "
    "to a value; 333fa44: the unconditional validator rejects a valueless self-intervened variable with the TypeError that "
    "SIMPLIFY raised after validation; f335599: ctfTR looks its outcomes up in the ancestral components under the minimised "
    "form the components store). Algorithm 2: ctfTRu_no_internal_error (validated input, plain event variables as built by the "
    "public wrapper, DomainsAgree = every domain graph keeps the target's bidirected edges between non-policy variables and "
    "has no bidirected edge at a selection node => answer or FAIL, no error; no class of events excluded: simplify_no_error, "
    "validateU_selfNone). Algorithm 3: ctfTR_no_internal_error (validated input, plain query variables, DomainsAgree, PopsPlain "
    "= the children of every domain's PopulationProbability are plain Variables, as in the PP[pi](V) every case of this harness "
    "carries; no class of queries excluded: every outcome is found under its lookup key, Ctf.ancestralSetRoot_mem / "
    "ctfTR_outcomes_found; the facts about Algorithm 2's expression Q - never Zero(), only graph vertices and variables of the "
    "domain distributions, and it mentions the vertex of every outcome - are proved: ctfTR_q_good, qCovers_of_popsPlain); for "
    "arbitrary domain distributions ctfTR_no_internal_error_anypop_partial needs OutcomeNotCondition (a distribution that lists "
    "a counterfactual variable next to its vertex, PP[pi](X, Y, Y_x), makes P*(Y = y | Y = y') raise KeyError from check 5 of "
    "the output check: Lean witness a3Shared, confirmed on the Python by tools/c09_popworld_witness.py; outside the quantifier "
    "of C09, NOT reachable by this harness's case format). FALSE without DomainsAgree: ONE crash class remains, the open finding "
    "crash:sigmaTR-district-split (Algorithm 4's ValueError for a domain graph that lacks a bidirected edge of the target; not "
    "repaired: the validator cannot reject such graphs because the pinned suite uses them - "
    "test_transport_unconditional_counterfactual_query_line_5, test_transport_conditional_counterfactual_query_7 - and treating "
    "the domain as unusable would turn an inconsistent input into a silent FAIL). The former crash findings "
    "(crash:simplify-typeerror, crash:ctfTR-derived-event-rejected, crash:ctfTR-final-check) are `fixed:` lines and regression "
    "cases in corpus/C09; an exception after validation on any other input is reported by the oracle as a violation",
    "failures on inputs with the syntactic signature of an open finding AND its kind of outcome (wrong value / wrong zero / "
    "exception class at a named check) are attributed to that finding by class key (12 keys; signature computed on the "
    "minimised query with the harness's own graph code); a different defect that only shows on such inputs with the same "
    "kind of outcome would be masked in the conditional procedure (the unconditional one is also tied to the model)",
    "oracle model class: discrete variables, positive rational parameters, independent root latents per bidirected edge, one "
    "private uniform noise per variable; policies are fresh kernels at the policy variables (same parents, or none when cut)",
    "a returned event that gives one variable two values (or uses a variable both as subscript value and as event value with "
    "different stars) is evaluated under every choice; the check reports only when no choice is right; a name bound by "
    "neither the returned event nor a subscript of the query is read universally (the value must be right for each of its "
    "values); ctfTR's returned event carries base variables only, so the literal subscripts are read from the query",
    "FAIL is judged for necessity on two streams only (multi_domain, fallthrough, built so that ONE entry of the domain list "
    "suffices): a refusal of the full list is a failure when the same query is answered from a single entry of the list alone "
    "with a value the exact oracle accepts (clause (f): Algorithm 4 tries every domain; a procedure that stops at the first "
    "usable domain only produces more FAILs and was invisible before; measured: the mutant `return district_q_probability` "
    "inside the loop gives 152 failures of 300 fall-through cases). Elsewhere "
    "FAIL and validation errors are never judged for necessity: a change that only refuses or rejects MORE inputs (selection "
    "nodes tested on all vertices, Zero replaced by FAIL, a larger D*, a stricter validator) keeps C09 as stated and is seen "
    "by the correspondence only (tools/c09_mutants.py lists these as `equiv`); inputs with an invalid topological order are "
    "outside the quantifier, so a validator that stops checking the order is not detected",
    "theorem/oracle tie, THIS RUN: (filled in by the comparison with the model, see _tie_report)",
]
LEANCHECK_MODULES = ["Y0.Model.CtfTr", "Y0.Props.C09", "Y0.Props.C09Sound"]
EXHAUSTIVE = {"quick": False, "thorough": False}
ESCALATED_TIER = "escalated"

# ------------------------------------------------------------------------------------------------ encoding helpers


def cv(name, star="m", ivs=()):
    """encoded counterfactual variable: star 'm' = value -V, 'p' = +V, 'n' = no value; ivs = [(name, 'm'|'p')]"""
    return ["v", name, star, "0", [[z, s] for z, s in sorted(ivs)]]


# figure 2a of Correa et al.: Z=3 X=1 Y=2 W=0   (Z->X, Z->Y, X->Y, X->W, W->Y, Z<->X, W<->Y)
_F2A = {"nodes": [], "di": [[3, 1], [3, 2], [1, 2], [1, 0], [0, 2]], "bi": [[3, 1], [0, 2]]}
_F2_DOMS = [{"pop": 1001, "tmarks": [3], "policy": [1], "cut": [1]}, {"pop": 1002, "tmarks": [0], "policy": [], "cut": []}]
# figure 1: X=0 Z=2 Y=1  (X->Z, Z->Y, X->Y, Z<->X); domain 1: no bidirected edge, selection node on Y
_F1 = {"nodes": [], "di": [[0, 2], [2, 1], [0, 1]], "bi": [[2, 0]]}


def _u(g, doms, event, seed=5, **kw):
    c = {"kind": "uncond", "g": g, "domains": doms, "event": event, "eval_seed": seed}
    c.update(kw)
    return c


def _c(g, doms, outcomes, conditions, seed=5, **kw):
    c = {"kind": "cond", "g": g, "domains": doms, "outcomes": outcomes, "conditions": conditions, "eval_seed": seed}
    c.update(kw)
    return c


CORPUS = [
    _u(_F2A, _F2_DOMS, [cv(2, "m", [(1, "m")]), cv(1, "m")]),                     # Example 4.2: P*(y_x, x)
    _u(_F2A, _F2_DOMS, [cv(2, "m", [(1, "m")]), cv(1, "p")]),                     # P*(y_x, x')
    _u(_F2A, _F2_DOMS, [cv(2, "m", [(1, "m")]), cv(0, "m", [(1, "p")]), cv(1, "m")]),   # inconsistent ctf-factor: FAIL
    _u(_F2A, _F2_DOMS, [cv(2, "m", [(1, "m")]), cv(2, "n", [(1, "m")]), cv(1, "m")]),
    _u(_F2A, _F2_DOMS, [cv(2, "m", [(1, "m")]), cv(2, "p", [(1, "m")])]),           # impossible: Zero
    _u(_F2A, _F2_DOMS, [cv(2, "m", [(1, "m")])]),
    _c(_F2A, _F2_DOMS, [cv(2, "m", [(1, "m")])], [cv(3, "m")]),
    _c(_F2A, _F2_DOMS, [cv(2, "m", [(1, "m")])], [cv(1, "p")]),                    # Example 4.5-like: P*(y_x | x')
    _c(_F2A, _F2_DOMS, [cv(2, "m", [(1, "m")])], [cv(0, "m", [(1, "m")])]),
    # subscript that is not an ancestor (F8: minimisation builds a counterfactual without interventions)
    _u({"nodes": [], "di": [[0, 1]], "bi": []}, [{"pop": 1001, "tmarks": [], "policy": [], "cut": []}],
       [cv(0, "m", [(1, "m")])]),
    # isolated node in the target graph (F1 family)
    _u({"nodes": [2], "di": [[0, 1]], "bi": []}, [{"pop": 1001, "tmarks": [], "policy": [], "cut": []}],
       [cv(1, "m", [(0, "m")]), cv(2, "m")]),
    # malformed
    _u(_F2A, _F2_DOMS, [], malformed="empty_event"),
    _u(_F2A, _F2_DOMS, [cv(2, "n", [(1, "m")])], malformed="all_none"),
    _u(_F2A, _F2_DOMS, [cv(9, "m")], malformed="outside"),
    _u(_F2A, [], [cv(2, "m")], malformed="no_domains"),
]

# ------------------------------------------------------------------------------------------------ generators


def _rand_cvar(rng, nodes, allow_none=True, p_sub=0.6):
    name = rng.choice(nodes)
    r = rng.random()
    star = "m" if r < 0.7 else ("p" if r < 0.9 or not allow_none else "n")
    others = [v for v in nodes if v != name]
    ivs = []
    if others and rng.random() < p_sub:
        for z in rng.sample(others, rng.randint(1, min(2, len(others)))):
            ivs.append((z, "m" if rng.random() < 0.75 else "p"))
    if rng.random() < 0.04:                       # reflexive subscript
        ivs.append((name, rng.choice("mp")))
    return cv(name, star, ivs)


def _rand_domains(rng, nodes):
    doms = []
    for k in range(rng.choice([1, 1, 2, 2, 2])):
        r = rng.random()
        if r < 0.12:
            doms.append({"pop": TARGET, "tmarks": [], "policy": [], "cut": []})
            continue
        tm = [v for v in nodes if rng.random() < rng.choice([0.15, 0.35])]
        pol = [v for v in nodes if rng.random() < rng.choice([0.0, 0.2, 0.3])]
        cut = [v for v in pol if rng.random() < 0.6]
        doms.append({"pop": TARGET + 1 + k, "tmarks": sorted(tm), "policy": sorted(pol), "cut": sorted(cut)})
    return doms


def _rand_case(rng, nmax=5):
    while True:
        g = G.rand_graph(rng, 2, nmax, acyclic=True, pd=rng.choice([0.4, 0.6]), pb=rng.choice([0.0, 0.2, 0.4]))
        nodes = G.all_nodes(g)
        if len(nodes) >= 2 and len(g["bi"]) <= 6:
            break
    doms = _rand_domains(rng, nodes)
    seed = rng.randrange(1 << 30)
    if rng.random() < 0.6:
        ev = [_rand_cvar(rng, nodes) for _ in range(rng.randint(1, 3))]
        return _u(g, doms, ev, seed, topo_seed=rng.randrange(1 << 30))
    outs = [_rand_cvar(rng, nodes, allow_none=False) for _ in range(rng.randint(1, 2))]
    conds = [_rand_cvar(rng, nodes, allow_none=False, p_sub=0.3) for _ in range(rng.randint(1, 2))]
    return _c(g, doms, outs, conds, seed, topo_seed=rng.randrange(1 << 30))


# ---- structured streams (second round): single-world events over distinct variables --------------------------------
# The random stream draws the subscripts of every event variable independently, so two outcomes in the SAME world with
# two or more intervened variables (where get_ancestors_of_counterfactual must use G with the edges into X removed, not
# G) almost never occur.  These streams build them on purpose; they are outside every known-finding class (one world,
# one value per variable, no self-intervention), so the value oracle judges every answer.

def _chain_template(rng):
    """X1 -> X2 -> W -> Y, X1 -> Y (X1 reaches the outcome-ancestor W only through X2) under a random relabelling, plus
    optional extra root / extra edges / a bidirected edge that keeps X out of the districts of the outcomes"""
    n = rng.choice([4, 4, 5])
    lab = list(range(n))
    rng.shuffle(lab)
    x1, x2, w, y = lab[:4]
    di = [[x1, x2], [x2, w], [w, y], [x1, y]]
    bi = []
    if n == 5:
        z = lab[4]
        r = rng.random()
        if r < 0.4:
            di.append([z, w])                     # extra root that must be summed out
        elif r < 0.6:
            di.append([z, y])
        elif r < 0.8:
            di += [[x2, z], [z, y]]               # second mediator
        else:
            di += [[w, z], [z, y]]                # outcome chain W -> Z -> Y
        if rng.random() < 0.3:
            bi.append([z, rng.choice([w, y])])
    if rng.random() < 0.25:
        bi.append([w, y])
    if rng.random() < 0.15:
        bi.append([x1, x2])
    if rng.random() < 0.2:
        di.append([x2, y])
    return {"nodes": [], "di": di, "bi": bi}, [x1, x2], [w, y] + ([lab[4]] if n == 5 else [])


def _single_world_case(rng):
    """all event variables carry the same subscripts (2-3 intervened variables, one value each); outcomes are 1-3 distinct
    other variables, preferably ancestors of one another"""
    r = rng.random()
    if r < 0.45:
        g, xs, rest = _chain_template(rng)
    else:
        while True:
            g = G.rand_graph(rng, 4, 5, acyclic=True, pd=rng.choice([0.5, 0.7]), pb=rng.choice([0.0, 0.0, 0.2]))
            nodes = G.all_nodes(g)
            if len(nodes) >= 4 and len(g["bi"]) <= 4:
                break
        di = [tuple(e) for e in g["di"]]
        # prefer intervened pairs joined by a directed path (one reaches the outcomes through the other)
        pairs = [(a, b) for a in nodes for b in nodes if a != b and a in FE.ancestors(di, {b})]
        if pairs and rng.random() < 0.8:
            xs = list(rng.choice(pairs))
        else:
            xs = rng.sample(nodes, 2)
        rest = [v for v in nodes if v not in xs]
        if len(rest) > 1 and rng.random() < 0.15:
            xs.append(rest.pop(rng.randrange(len(rest))))
    nodes = G.all_nodes(g)
    di = [tuple(e) for e in g["di"]]
    ivs = [(x, "m" if rng.random() < 0.7 else "p") for x in xs]
    # outcomes: favour descendants of the intervened variables and chains of outcomes (ancestors of one another)
    desc = [v for v in rest if set(xs) & FE.ancestors(di, {v})]
    pool = desc if desc and rng.random() < 0.85 else rest
    k = min(len(pool), rng.choice([1, 2, 2, 2, 3]))
    outs = rng.sample(pool, k)
    doms = _rand_domains(rng, nodes) if rng.random() < 0.5 else _marks_only_domains(rng, nodes)
    seed = rng.randrange(1 << 30)
    mk = lambda v: cv(v, "m" if rng.random() < 0.65 else "p", ivs)  # noqa: E731
    if rng.random() < 0.8 or len(outs) < 2:
        return _u(g, doms, [mk(v) for v in outs], seed, topo_seed=rng.randrange(1 << 30), stream="single_world")
    nc = rng.randint(1, len(outs) - 1)
    return _c(g, doms, [mk(v) for v in outs[nc:]], [mk(v) for v in outs[:nc]], seed, topo_seed=rng.randrange(1 << 30),
              stream="single_world")


def _dropped_bi_case(rng):
    """a source domain whose graph lacks a bidirected edge of the target (the validators compare a domain graph with the
    target only when the domain IS the target; Correa et al.'s figure 1 has such a domain).  Only the trichotomy clause is
    judged on these cases: the oracle's domain models are built from the target graph."""
    while True:
        c = _rand_case(rng, 4)
        if c["kind"] == "uncond" and c["g"]["bi"] and c["domains"]:
            break
    k = rng.randrange(len(c["domains"]))
    e = rng.choice(c["g"]["bi"])
    c["domains"][k]["drop_bi"] = [sorted(e)]
    c["domains"][k]["cut"] = []
    c["stream"] = "dropped_bi"
    return c


def _marks_only_domains(rng, nodes):
    """two source domains with selection nodes only (no policies): every district is usually transportable from one"""
    doms = []
    for k in range(2):
        tm = [v for v in nodes if rng.random() < 0.3]
        doms.append({"pop": TARGET + 1 + k, "tmarks": sorted(tm), "policy": [], "cut": []})
    return doms


# ---- structured streams (third round): inputs on which a one-line slip in Algorithms 2-4 changes the VALUE ---------------
# (tools/c09_mutants.py is the mutation table these streams are measured against)

def _event_factors(g, event):
    """districts of G[An(event)] (the vertex sets of the ctf-factors of the query) by the harness's own graph code"""
    di = [tuple(e) for e in g["di"]]
    names = set()
    for v in event:
        n, S = _min_var(di, v)
        names |= {a for a, _ in _ctf_ancestors(di, n, S)}
    bi = [tuple(e) for e in g["bi"] if e[0] in names and e[1] in names]
    return names, FE.districts(sorted(names), bi)


def _single_world_event(rng, g, n_x=None):
    nodes = G.all_nodes(g)
    di = [tuple(e) for e in g["di"]]
    n_x = rng.choice([0, 1, 1, 1, 2]) if n_x is None else n_x
    xs = rng.sample(nodes, min(n_x, len(nodes) - 1))
    rest = [v for v in nodes if v not in xs]
    desc = [v for v in rest if set(xs) & FE.ancestors(di, {v})]
    pool = desc if desc and rng.random() < 0.8 else rest
    outs = rng.sample(pool, min(len(pool), rng.choice([1, 1, 2, 2, 3])))
    ivs = [(x, "m" if rng.random() < 0.7 else "p") for x in xs]
    return [cv(v, "m" if rng.random() < 0.65 else "p", ivs) for v in outs], xs


def _mark(rng, d, v):
    """selection node or policy (cut from its parents or not) on v in the domain record d"""
    if rng.random() < 0.55:
        d["tmarks"].append(v)
    else:
        d["policy"].append(v)
        if rng.random() < 0.5:
            d["cut"].append(v)


def _two_domain_case(rng):
    """two source domains and a query with >= 2 ctf-factors such that EACH of two chosen factors can be transported from
    exactly one domain (a selection node or a policy sits on the other domain's copy of that district), the remaining marks
    being on variables outside the ancestral set (intervened variables, descendants) or inside the already blocked
    district; graphs with several bidirected edges, so that districts of size >= 2, districts whose district in the full
    domain graph is strictly larger (a bidirected edge to a non-ancestor) and districts with ancestors outside them are
    frequent; the domains' topological orders are drawn independently.  Single-world events over distinct variables:
    outside every known-finding class, the value oracle judges every answer - a wrong usability test, a wrong choice of
    domain / graph / distribution / order changes the value."""
    for _try in range(200):
        g = G.rand_graph(rng, 4, 5, acyclic=True, pd=rng.choice([0.4, 0.6]), pb=rng.choice([0.25, 0.4, 0.5]))
        nodes = G.all_nodes(g)
        if len(nodes) < 4 or not 1 <= len(g["bi"]) <= 5:
            continue
        ev, xs = _single_world_event(rng, g)
        names, ds = _event_factors(g, ev)
        if len(ds) >= 2 or _try > 150:
            break
    ds = sorted(ds, key=sorted)
    d1, d2 = (rng.sample(ds, 2) if len(ds) >= 2 else (ds[0], frozenset()))
    outside = [v for v in nodes if v not in names]
    doms = []
    for k, (blocked, _free) in enumerate([(d1, d2), (d2, d1)]):
        d = {"pop": TARGET + 1 + k, "tmarks": [], "policy": [], "cut": []}
        r = rng.random()
        if blocked and r < 0.9:
            _mark(rng, d, rng.choice(sorted(blocked)))
        for v in outside + sorted(blocked):
            if v not in d["tmarks"] + d["policy"] and rng.random() < 0.3:
                _mark(rng, d, v)
        for key in ("tmarks", "policy", "cut"):
            d[key] = sorted(d[key])
        doms.append(d)
    if rng.random() < 0.5:
        doms.reverse()
        for k, d in enumerate(doms):
            d["pop"] = TARGET + 1 + k
    if rng.random() < 0.08:
        doms.append({"pop": TARGET, "tmarks": [], "policy": [], "cut": []})
    return _u(g, doms, ev, rng.randrange(1 << 30), topo_seed=rng.randrange(1 << 30), stream="two_domain")


def _redundant_case(rng):
    """single-world events that SIMPLIFY changes: an item listed twice, a valueless copy of a valued variable, a subscript
    that is not an ancestor of its variable (so the summation range, the returned event and the value bookkeeping must be
    computed from the simplified event)"""
    while True:
        c = _single_world_case(rng) if rng.random() < 0.5 else _two_domain_case(rng)
        if c["kind"] == "uncond":
            break
    g, ev = c["g"], c["event"]
    nodes = G.all_nodes(g)
    di = [tuple(e) for e in g["di"]]
    for _ in range(rng.choice([1, 1, 2])):
        j = rng.randrange(len(ev))
        item = json.loads(json.dumps(ev[j]))
        r = rng.random()
        if r < 0.3:
            ev.insert(rng.randrange(len(ev) + 1), item)                       # repeated item
        elif r < 0.5:
            item[2] = "n"
            ev.insert(rng.randrange(len(ev) + 1), item)                       # valueless copy
        else:
            used = {int(z) for z, _ in item[4]} | {int(item[1])}
            red = [v for v in nodes if v not in used and v not in FE.ancestors(di, {int(item[1])})]
            if red:
                ev[j][4] = sorted(ev[j][4] + [[rng.choice(red), rng.choice("mp")]])   # causally irrelevant subscript
            else:
                ev.insert(rng.randrange(len(ev) + 1), item)
    c["stream"] = "redundant"
    return c


def _incons_case(rng):
    """queries with an INCONSISTENT ctf-factor (Definition 4.1: A = a next to C_{a'}, or C_{a} next to C'_{a'}, in one
    district of the ancestral graph) over unmarked or harmlessly marked domains: line 3 of Algorithm 2 has to answer FAIL;
    a procedure that skips the test returns a number that is no probability of the query"""
    while True:
        n = rng.choice([2, 3, 3, 4])
        lab = rng.sample(range(5), n)
        a, c1 = lab[0], lab[1]
        di, bi = [[a, c1]], []
        two = n >= 3 and rng.random() < 0.5
        if two:                                   # part (ii): C_{a} and C'_{a'}, C <-> C'
            c2 = lab[2]
            di.append([a, c2])
            bi.append([c1, c2])
            ev = [cv(c1, rng.choice("mp"), [(a, "m")]), cv(c2, rng.choice("mp"), [(a, "p")])]
        else:                                     # part (i): A = a and C_{a'}, A <-> C
            bi.append([a, c1])
            s_ = rng.choice("mp")
            ev = [cv(c1, rng.choice("mp"), [(a, s_)]), cv(a, "p" if s_ == "m" else "m")]
        for z in lab[(3 if two else 2):]:
            r = rng.random()
            if r < 0.4:
                di.append([z, rng.choice([a, c1])])
            elif r < 0.7:
                di.append([rng.choice([a, c1]), z])
            else:
                bi.append([z, c1])
        g = {"nodes": [], "di": di, "bi": bi}
        rng.shuffle(ev)
        names, _ds = _event_factors(g, ev)
        outside = [v for v in G.all_nodes(g) if v not in names]
        doms = []
        for k in range(rng.choice([1, 2])):
            d = {"pop": TARGET + 1 + k, "tmarks": [], "policy": [], "cut": []}
            for v in outside:
                if rng.random() < 0.4:
                    _mark(rng, d, v)
            doms.append(d)
        c = _u(g, doms, ev, rng.randrange(1 << 30), topo_seed=rng.randrange(1 << 30), stream="incons")
        if _inconsistent_factor(c):
            return c


# ---- structured streams (fifth round, gap review): domain LISTS, Algorithm 4's fall-through, conditional queries ----------

def _split_cond(rng, ev, case_kw):
    """turn a single-world event of >= 2 items into outcomes / conditions (same subscripts on both sides: one world, so
    outside every known-finding class and judged by the value oracle); biased towards >= 3 items on one side"""
    ev = list(ev)
    rng.shuffle(ev)
    if len(ev) >= 4 and rng.random() < 0.6:
        nc = rng.choice([1, len(ev) - 1])
    else:
        nc = rng.randint(1, len(ev) - 1)
    return _c(case_kw.pop("g"), case_kw.pop("domains"), ev[nc:], ev[:nc], case_kw.pop("seed"), **case_kw)


def _tag_domains(rng, doms, allow_target=True):
    """give the records of a domain list population tags that do NOT ascend with the list index (a shuffled subset of
    pi1..pi6); sometimes add a target-tagged entry - half of them WITH (uncut) policy variables, P*(V; sigma_X) - and
    sometimes repeat one record (the same tag twice, same regime)"""
    tags = rng.sample(range(TARGET + 1, TARGET + 7), len(doms))
    for d, t in zip(doms, tags):
        d["pop"] = t
    return doms


def _multi_domain_case(rng):
    """THREE or four source domains such that one chosen ctf-factor of the query can be transported ONLY from the LAST
    entry of the list (position >= 2): every earlier entry carries a selection node or a policy on that district.  Tags
    in shuffled order; optionally a target-tagged entry with an uncut policy variable, and a repeated record.  Single-world
    events over distinct variables (value oracle judges); one case in three is conditional."""
    for _try in range(200):
        g = G.rand_graph(rng, 4, 5, acyclic=True, pd=rng.choice([0.4, 0.6]), pb=rng.choice([0.0, 0.25, 0.4]))
        nodes = G.all_nodes(g)
        if len(nodes) < 4 or len(g["bi"]) > 4:
            continue
        ev, xs = _single_world_event(rng, g)
        if len(ev) >= 1:
            break
    names, ds = _event_factors(g, ev)
    ds = sorted(ds, key=sorted)
    d1 = rng.choice(ds)
    outside = [v for v in nodes if v not in names]
    k = rng.choice([3, 3, 4])
    doms = []
    for j in range(k):
        d = {"pop": TARGET + 1 + j, "tmarks": [], "policy": [], "cut": []}
        if j < k - 1:
            _mark(rng, d, rng.choice(sorted(d1)))          # blocks the chosen district
        for v in outside + [u for u in sorted(names) if u not in d1]:
            if v not in d["tmarks"] + d["policy"] and rng.random() < (0.25 if j < k - 1 else 0.1):
                _mark(rng, d, v)
        for key in ("tmarks", "policy", "cut"):
            d[key] = sorted(d[key])
        doms.append(d)
    _tag_domains(rng, doms)
    r = rng.random()
    if r < 0.15:                                            # the same record twice (same tag, same regime)
        j = rng.randrange(len(doms) - 1)
        doms.insert(rng.randrange(len(doms)), json.loads(json.dumps(doms[j])))
    elif r < 0.35:                                          # a target-tagged entry, half of them with an uncut policy
        pol = [rng.choice(sorted(d1))] if rng.random() < 0.5 else ([rng.choice(nodes)] if rng.random() < 0.5 else [])
        doms.insert(rng.randrange(len(doms)), {"pop": TARGET, "tmarks": [], "policy": sorted(pol), "cut": []})
    seed = rng.randrange(1 << 30)
    if len(ev) >= 2 and rng.random() < 0.35:
        return _split_cond(rng, ev, {"g": g, "domains": doms, "seed": seed, "topo_seed": rng.randrange(1 << 30),
                                     "stream": "multi_domain"})
    return _u(g, doms, ev, seed, topo_seed=rng.randrange(1 << 30), stream="multi_domain")


def _fallthrough_case(rng):
    """Algorithm 4 must FALL THROUGH a usable domain in which IDENTIFY fails to a later domain: a bow X -> Y, X <-> Y into
    the ctf-factor {Y} of Y_x; an unmarked source domain (or the target-tagged entry) is usable but B_i = {X, Y} and
    IDENTIFY fails; a domain with a CUT policy on X has B_i = {Y} and succeeds.  Random relabelling, optional extra
    vertices, random list order, optionally a third (unusable: selection node on Y) domain."""
    n = rng.choice([2, 3, 3, 4])
    lab = rng.sample(range(5), n)
    x, y = lab[0], lab[1]
    di, bi = [[x, y]], [[x, y]]
    for z in lab[2:]:
        r = rng.random()
        if r < 0.35:
            di.append([z, x])
        elif r < 0.6:
            di.append([y, z])
        elif r < 0.8:
            di.append([z, y])
        else:
            di += [[x, z], [z, y]]
    g = {"nodes": [], "di": di, "bi": bi}
    ev = [cv(y, rng.choice("mp"), [(x, rng.choice("mmp"))])]
    doms = [{"pop": TARGET if rng.random() < 0.3 else TARGET + 1, "tmarks": [], "policy": [], "cut": []},
            {"pop": TARGET + 2, "tmarks": [], "policy": [x], "cut": [x]}]
    if rng.random() < 0.5:
        doms.append({"pop": TARGET + 3, "tmarks": [y], "policy": [], "cut": []})
    rng.shuffle(doms)
    if rng.random() < 0.5:
        _tag_domains(rng, [d for d in doms if d["pop"] != TARGET])
    return _u(g, doms, ev, rng.randrange(1 << 30), topo_seed=rng.randrange(1 << 30), stream="fallthrough")


def _target_policy_case(rng):
    """a TARGET-tagged entry WITH a non-empty, uncut policy set (P*(V; sigma_Z)) whose policy variable z is a root without
    bidirected edges - so the validator accepts the entry - and forms a district {z} that the query needs; a source domain
    without a mark on z can deliver Q[{z}], the target-tagged entry must NOT (its policy acts inside the district).  Both
    list orders (seeded/C09e needs the target-tagged entry FIRST), optional third domain, optional extra vertices, one case
    in three conditional.  The value oracle judges: Q[{z}] taken from the policy-altered distribution is wrong."""
    n = rng.choice([3, 3, 4, 4, 5])
    lab = rng.sample(range(5), n)
    z, x, y = lab[0], lab[1], lab[2]
    di = [[z, x], [x, y]]
    if rng.random() < 0.7:
        di.append([z, y])
    bi = [[x, y]] if rng.random() < 0.25 else []
    for w in lab[3:]:
        r = rng.random()
        if r < 0.3:
            di.append([w, y])
        elif r < 0.55:
            di.append([x, w])
        elif r < 0.8:
            di += [[z, w], [w, y]]
        else:
            di.append([w, x])
            if rng.random() < 0.5:
                bi.append([w, y])
    g = {"nodes": [], "di": di, "bi": bi}
    if [z, y] in di and rng.random() < 0.6:
        ev = [cv(y, rng.choice("mp"), [(x, rng.choice("mmp"))])]
    else:
        ev = [cv(y, rng.choice("mp")), cv(x, rng.choice("mp"))]
        if rng.random() < 0.5:
            ev.append(cv(z, rng.choice("mp")))
    others = [v for v in lab if v != z]
    src = {"pop": TARGET + 1, "tmarks": sorted(v for v in others if rng.random() < 0.25), "policy": [], "cut": []}
    doms = [{"pop": TARGET, "tmarks": [], "policy": [z], "cut": []}, src]
    if rng.random() < 0.4:
        doms.append({"pop": TARGET + 2, "tmarks": sorted({z} | {v for v in others if rng.random() < 0.3}), "policy": [], "cut": []})
    if rng.random() < 0.5:
        rng.shuffle(doms)
    if rng.random() < 0.5:
        _tag_domains(rng, [d for d in doms if d["pop"] != TARGET])
    seed = rng.randrange(1 << 30)
    if len(ev) >= 2 and rng.random() < 0.35:
        return _split_cond(rng, ev, {"g": g, "domains": doms, "seed": seed, "topo_seed": rng.randrange(1 << 30),
                                     "stream": "target_policy"})
    return _u(g, doms, ev, seed, topo_seed=rng.randrange(1 << 30), stream="target_policy")


def _cond_structured_case(rng):
    """conditional queries that the value oracle judges: a single-world event of 2-4 items over distinct variables of a
    4-5 node graph (the two_domain construction), split into outcomes and conditions - with >= 3 conditions or >= 3
    outcomes in every second case that has 4 items"""
    for _try in range(100):
        c = _two_domain_case(rng) if rng.random() < 0.6 else _single_world_case(rng)
        if c["kind"] == "uncond" and len(c["event"]) >= 2 and len({v[1] for v in c["event"]}) == len(c["event"]):
            break
    g = c["g"]
    ev = c["event"]
    if len(ev) < 4 and rng.random() < 0.6:                  # widen the event inside the same world
        used = {int(v[1]) for v in ev} | {int(z) for z, _ in ev[0][4]}
        more = [v for v in G.all_nodes(g) if v not in used]
        rng.shuffle(more)
        for v in more[: 4 - len(ev)]:
            ev.append(cv(v, "m" if rng.random() < 0.65 else "p", [tuple(i) for i in ev[0][4]]))
    return _split_cond(rng, ev, {"g": g, "domains": c["domains"], "seed": c["eval_seed"],
                                 "topo_seed": c.get("topo_seed", 1), "stream": "cond_structured"})


def _six_node_case(rng):
    """thorough tier only: 6-node graphs (binary variables, <= 3 bidirected edges forming long districts), single-world
    events; the value oracle runs up to 6 nodes on this stream"""
    while True:
        g = G.rand_graph(rng, 6, 6, acyclic=True, pd=rng.choice([0.35, 0.5]), pb=0.15)
        nodes = G.all_nodes(g)
        if len(nodes) == 6 and len(g["bi"]) <= 3:
            break
    ev, _xs = _single_world_event(rng, g)
    doms = _marks_only_domains(rng, nodes) if rng.random() < 0.5 else _rand_domains(rng, nodes)
    seed = rng.randrange(1 << 30)
    if len(ev) >= 2 and rng.random() < 0.3:
        return _split_cond(rng, ev, {"g": g, "domains": doms, "seed": seed, "topo_seed": rng.randrange(1 << 30),
                                     "stream": "six_node"})
    return _u(g, doms, ev, seed, topo_seed=rng.randrange(1 << 30), stream="six_node")


def _with_forms(rng, c):
    """argument forms of the public wrappers that the other streams never use: a single Variable instead of a one-element
    list, CFTDomain(population=<Population>) (the distribution is then built over graph.nodes() in NODE order), and
    ordering=None (the wrapper takes graph.topological_sort())"""
    c["forms"] = {"single": rng.random() < 0.5, "population": rng.random() < 0.5, "ordering_none": rng.random() < 0.5}
    return c


MALFORMED = ["empty_event", "all_none", "outside", "no_domains", "bad_topo", "policy_outside", "tnode_in_target",
             "cyclic_target", "extra_vertex", "star_none_cond", "target_tag_other_graph", "overlap_cond", "cyclic_domain"]


def _rand_malformed(rng):
    c = _rand_case(rng, 4)
    kind = rng.choice(MALFORMED)
    nodes = G.all_nodes(c["g"])
    c["malformed"] = kind
    if c["domains"]:                 # fifth round: the damaged domain is not always domains[0]
        c["mal_dom"] = rng.randrange(len(c["domains"]))
    key = "event" if c["kind"] == "uncond" else "outcomes"
    if kind == "empty_event":
        c[key] = []
    elif kind == "all_none":
        if c["kind"] == "cond":
            c["malformed"] = kind = "star_none_cond"
        for v in c[key]:
            v[2] = "n"
    elif kind == "star_none_cond":
        c = _c(c["g"], c["domains"], c.get("outcomes") or [cv(nodes[0], "n")], c.get("conditions") or [cv(nodes[-1], "m")],
               c["eval_seed"], malformed=kind)
        c["outcomes"][0][2] = "n"
    elif kind == "outside":
        if c["kind"] == "cond" and rng.random() < 0.5:
            c["conditions"] = c["conditions"] + [cv(93, "m")]     # third round: the validator checks the conditions separately
        else:
            c[key] = c[key] + [cv(93, "m")]
    elif kind == "bad_topo" and rng.random() < 0.35:
        c["mal_variant"] = "topo_missing"          # the order of domain 0 lacks a vertex (check 14), see _build
    elif kind == "no_domains":
        c["domains"] = []
    elif kind == "policy_outside":
        k = rng.randrange(len(c["domains"]))
        c["domains"][k]["policy"] = c["domains"][k]["policy"] + [94]
    elif kind == "overlap_cond":
        if c["kind"] != "cond":
            c = _c(c["g"], c["domains"], [cv(nodes[0], "m")], [cv(nodes[0], "m")], c["eval_seed"], malformed=kind)
        else:
            c["conditions"] = c["conditions"] + [json.loads(json.dumps(c["outcomes"][0]))]
    return c


def _corpus_dir():
    import glob
    import os
    out = []
    for f in sorted(glob.glob(os.path.join(str(C.VERIF), "corpus", PROP, "*.json"))):
        d = json.load(open(f))
        out += d if isinstance(d, list) else [d]
    return out


def cases(rng: random.Random, tier: str):
    out = [json.loads(json.dumps(c)) for c in CORPUS]
    seen = {json.dumps(c, sort_keys=True) for c in out}
    out += [c for c in _corpus_dir() if json.dumps(c, sort_keys=True) not in seen]
    n_rand, n_mal = {"quick": (9000, 1000), "escalated": (22000, 2500)}.get(tier, (90000, 8000))
    n_sw = {"quick": 3000, "escalated": 8000}.get(tier, 30000)
    for _ in range(n_sw):
        out.append(_single_world_case(rng))
    for _ in range(n_sw // 10):
        out.append(_dropped_bi_case(rng))
    for _ in range(n_sw // 2):
        out.append(_two_domain_case(rng))
    for _ in range(n_sw // 5):
        out.append(_redundant_case(rng))
    for _ in range(n_sw // 8):
        out.append(_incons_case(rng))
    for _ in range(n_sw // 6):
        out.append(_multi_domain_case(rng))
    for _ in range(n_sw // 10):
        out.append(_fallthrough_case(rng))
    for _ in range(n_sw // 6):
        out.append(_cond_structured_case(rng))
    for _ in range(n_sw // 15):
        out.append(_with_forms(rng, rng.choice([_single_world_case, _two_domain_case, _rand_case])(rng)))
    for _ in range(n_sw // 10):
        out.append(_target_policy_case(rng))
    if tier not in ("quick", "escalated"):
        for _ in range(600):
            out.append(_six_node_case(rng))
    for _ in range(n_rand):
        out.append(_rand_case(rng, 5 if rng.random() < 0.3 else 4))
    for _ in range(n_mal):
        out.append(_rand_malformed(rng))
    return out


# ------------------------------------------------------------------------------------------------ building the y0 inputs

def _y0_var(v):
    from y0.dsl import CounterfactualVariable, Intervention, Variable
    _, name, star, _isiv, ivs = v
    st = {"n": None, "m": False, "p": True}[star]
    nm = G.vname(int(name))
    if ivs:
        return CounterfactualVariable(name=nm, star=st, interventions=frozenset(
            Intervention(name=G.vname(int(z)), star=(s == "p")) for z, s in ivs))
    return Variable(name=nm, star=st)


def domain_graph_dict(g, d, malformed=None):
    nodes = G.all_nodes(g)
    cut = set(d.get("cut", []))
    drop = {tuple(sorted(e)) for e in d.get("drop_bi", [])}
    di = [e for e in g["di"] if e[1] not in cut] + [[200 + t, t] for t in d["tmarks"]]
    bi = [e for e in g["bi"] if e[0] not in cut and e[1] not in cut and tuple(sorted(e)) not in drop]
    if malformed == "extra_vertex":
        nodes = nodes + [95]
    return {"nodes": nodes, "di": di, "bi": bi}


def _topo(gd, seed, bad=False):
    nodes = G.all_nodes(gd)
    rng = random.Random(seed)
    indeg = {v: 0 for v in nodes}
    for u, v in gd["di"]:
        indeg[v] += 1
    order, ready = [], [v for v in nodes if indeg[v] == 0]
    while ready:
        v = ready.pop(rng.randrange(len(ready)))
        order.append(v)
        for a, b in gd["di"]:
            if a == v:
                indeg[b] -= 1
                if indeg[b] == 0:
                    ready.append(b)
    if bad and len(order) >= 2 and gd["di"]:
        a, b = gd["di"][0]
        i, j = order.index(a), order.index(b)
        order[i], order[j] = order[j], order[i]
    return order


def _build(case):
    from y0.algorithm.counterfactual_transport.api import CFTDomain
    from y0.dsl import PP, Variable

    mal = case.get("malformed")
    g = case["g"]
    tg = {"nodes": G.all_nodes(g), "di": list(g["di"]), "bi": list(g["bi"])}
    if mal == "tnode_in_target" and tg["nodes"]:
        tg["di"] = tg["di"] + [[200 + tg["nodes"][0], tg["nodes"][0]]]
    if mal == "cyclic_target" and tg["di"]:
        tg["di"] = tg["di"] + [[tg["di"][0][1], tg["di"][0][0]]]
    target = G.to_nx_mixed(tg)
    domains = []
    mk = min(case.get("mal_dom", 0), max(len(case["domains"]) - 1, 0))
    forms = case.get("forms") or {}
    for k, d in enumerate(case["domains"]):
        gd = domain_graph_dict(g, d, mal if k == mk else None)
        if mal == "target_tag_other_graph" and k == mk:
            d = dict(d, pop=TARGET, tmarks=[G.all_nodes(g)[0]])
            gd = domain_graph_dict(g, d)
        gd_graph = gd
        if mal == "cyclic_domain" and k == mk and gd["di"]:
            # the cycle is in the graph only; the order is a valid order of the graph without the back edge (never empty)
            gd_graph = dict(gd, di=gd["di"] + [[gd["di"][0][1], gd["di"][0][0]]])
        graph = G.to_nx_mixed(gd_graph)
        missing = mal == "bad_topo" and k == mk and case.get("mal_variant") == "topo_missing"
        order = [Variable(G.vname(v)) for v in _topo(gd, case.get("topo_seed", 1) + k,
                                                     bad=(mal == "bad_topo" and k == mk and not missing))]
        if missing and len(order) >= 2:     # never an EMPTY order: the public wrapper replaces it by the graph's own sort
            drop = G.vname(gd["di"][0][1]) if gd["di"] else order[-1].name
            order = [v for v in order if v.name != drop]
        regular = [Variable(G.vname(v)) for v in sorted(G.all_nodes(gd)) if v < 200]
        population = PP[Variable(G.vname(d["pop"]))](regular)
        if forms.get("population"):
            from y0.dsl import Population
            population = Population(G.vname(d["pop"]))        # CFTDomain.__post_init__ builds PP[pop](graph nodes)
        domains.append(CFTDomain(graph=graph, population=population,
                                 policy_variables={Variable(G.vname(v)) for v in d["policy"]},
                                 ordering=None if forms.get("ordering_none") else order))
    return target, domains


def _arg(vs, case):
    """the event / outcomes / conditions argument: a list, or - form `single` - the one Variable itself"""
    vs = [_y0_var(v) for v in vs]
    return vs[0] if len(vs) == 1 and (case.get("forms") or {}).get("single") else vs


# ------------------------------------------------------------------------------------------------ oracle

def _atoms(vars_enc, sigma, sigma2):
    """encoded counterfactual variables with values -> atoms of the functional SCM; None if a value is not over V"""
    out = []
    for v in vars_enc:
        _, name, star, _i, ivs = v
        name = int(name)
        # a variable without a value (None) stays a free variable of the answer: the expression, read at the value v of
        # that variable, is the probability of the event with "variable = v"; it is checked at the base value
        do = frozenset((int(z), (sigma2 if s == "p" else sigma)[int(z)]) for z, s in ivs)
        if len({z for z, _ in do}) < len(do):
            return "inconsistent-subscripts"
        out.append((name, do, (sigma2 if star == "p" else sigma)[name]))
    return out


def _enc_event(ev):
    """y0 event [(variable, value Intervention | None)] -> encoded variables carrying their value as star"""
    from y0.dsl import CounterfactualVariable
    out = []
    for var, val in ev:
        ivs = []
        if isinstance(var, CounterfactualVariable):
            ivs = [(G.name_to_int(i.name), "p" if i.star else "m") for i in var.interventions]
        out.append(cv(G.name_to_int(var.name), "n" if val is None else ("p" if val.star else "m"), ivs))
    return sorted(out, key=json.dumps)


def _candidate_bindings(ret_event, nodes, sigma, sigma2):
    """every assignment of a value to every variable name that some reading of the returned event supports"""
    cand = {v: set() for v in nodes}
    for var in ret_event:
        _, name, star, _i, ivs = var
        cand[int(name)].add((sigma2 if star == "p" else sigma)[int(name)])
        for z, s in ivs:
            cand[int(z)].add((sigma2 if s == "p" else sigma)[int(z)])
    free = [v for v in nodes if not cand[v]]
    return cand, free


def _visible(fam, seed):
    """make the source domains differ VISIBLY from the target: `Family` draws a fresh kernel at every marked variable,
    but with denominator 4 a fresh row of a binary variable repeats the target's row one time in three (a root variable
    has a single row), and a wrong choice of domain would then go unnoticed on this family.  Every row of a marked
    variable's kernel that has the target's shape is redrawn until it differs from the target's row (still a member of
    the compatible family: a domain may have ANY mechanism at a marked variable).  Called before any joint is cached."""
    rng = random.Random(seed * 7 + 3)
    for pop in sorted(fam.kern):
        if pop == TARGET:
            continue
        for v in fam.nodes:
            k, kt = fam.kern[pop][v], fam.kern[TARGET][v]
            if k is kt or k.shape != kt.shape or fam.struct[pop][v] != fam.struct[TARGET][v]:
                continue
            k = k.copy()
            for key in itt.product(*[range(n) for n in k.shape[1:]]):
                idx = (slice(None),) + key
                while list(k[idx]) == list(kt[idx]):
                    k[idx] = FE._weights(rng, k.shape[0], fam.DEN)
            fam.kern[pop][v] = k
    return fam


TPOL = TARGET - 1   # pseudo-population of the oracle: the TARGET domain under its declared policy, P*(V; sigma_Z)


def _target_policy(doms):
    """(policy variables, cut variables) when every target-tagged entry of the domain list declares the SAME non-empty
    policy: the data the analyst holds under the tag pi* is then P*(V; sigma_Z), not P*(V), and a PP[pi*] term of the answer
    must be read on it (mechanisms of the policy variables replaced, incoming edges of cut ones removed).  None when the list
    has plain target data too (the tag alone cannot tell the two apart; PP[pi*] is then read as P*, which can only hide a
    wrong choice, never accuse a right one) or no target-tagged entry."""
    tds = [d for d in doms if d["pop"] == TARGET]
    if not tds or any(not d["policy"] for d in tds):
        return None
    kinds = {(tuple(sorted(d["policy"])), tuple(sorted(d["cut"]))) for d in tds}
    if len(kinds) != 1:
        return None
    pol, cut = next(iter(kinds))
    return set(pol), set(cut)


def _retag(e, tp):
    """the answer with every PP[pi*] leaf moved to the pseudo-population TPOL (when the target data carry a policy)"""
    if tp is None or not isinstance(e, list):
        return e
    if e and e[0] == "PP" and int(e[1][1]) == TARGET:
        return ["PP", [e[1][0], str(TPOL)] + list(e[1][2:])] + [_retag(x, tp) for x in e[2:]]
    return [_retag(x, tp) for x in e]


def _marks_cut(doms):
    marks = {d["pop"]: set(d["tmarks"]) | set(d["policy"]) for d in doms if d["pop"] != TARGET}
    cut = {d["pop"]: set(d["cut"]) for d in doms if d["pop"] != TARGET}
    tp = _target_policy(doms)
    if tp is not None:
        marks[TPOL], cut[TPOL] = tp
    return marks, cut, tp


def _value_check(case, enc_expr_, ret_event, queried, cond=None):
    """(v): exists a reading of the returned event under which the expression equals P*(queried [| cond])"""
    g = case["g"]
    nodes = sorted(G.all_nodes(g))
    doms = case["domains"]
    marks, cut, tp = _marks_cut(doms)
    fam = _visible(FE.Family({"nodes": nodes, "di": g["di"], "bi": g["bi"]}, marks, random.Random(case["eval_seed"]), cut=cut,
                             den=4, tri_latents=False), case["eval_seed"])
    ft = FE.FunctionalTarget(fam)
    try:
        arr = fam.ev(_retag(enc_expr_, tp))
    except FE.EvalError as e:
        return f"expression cannot be read on the declared domain distributions: {e}"
    arr = np.broadcast_to(arr, tuple(fam.card[v] for v in nodes))
    rng = random.Random(case["eval_seed"] + 7)
    for _trial in range(2):
        sigma = {v: rng.randrange(2) for v in nodes}
        sigma2 = {v: 1 - sigma[v] for v in nodes}
        atoms = _atoms(queried, sigma, sigma2)
        if atoms == "inconsistent-subscripts":
            return None
        truth = ft.prob(atoms + (_atoms(cond, sigma, sigma2) if cond else []))
        if cond:
            catoms = _atoms(cond, sigma, sigma2)
            if catoms == "inconsistent-subscripts":
                return None
            pc = ft.prob(catoms)
            if pc == 0:
                continue
            truth = truth / pc
        cand, free = _candidate_bindings(ret_event, nodes, sigma, sigma2)
        qsub = _query_subscript_values(list(queried) + list(cond or []), sigma, sigma2)
        free_names = FE.free_names(enc_expr_)
        choices, unbound = [], []
        for v in nodes:
            if v not in free_names:
                choices.append([0])
            elif cand[v]:
                choices.append(sorted(cand[v]))
            elif qsub.get(v):
                choices.append(sorted(qsub[v]))  # a literal subscript of the query that the returned event does not repeat
            else:
                choices.append([None])           # bound by nothing: the value must be right whatever this variable is
                unbound.append(v)
        readings = []                            # one list of values (over the unbound names) per reading
        for pos in itt.product(*choices):
            alts = itt.product(*[[0, 1] if p is None else [p] for p in pos])
            readings.append([arr[q] for q in alts])
        if not any(all(x == truth for x in vals) for vals in readings):
            got = sorted({str(x) for vals in readings for x in vals})
            if any(x == truth for vals in readings for x in vals):
                return ("value differs from the target probability: it is right only for particular values of "
                        f"{unbound}, which the returned event does not bind (and the query does not intervene on): expected "
                        f"{truth}, got {got} (base values {sigma})")
            return ("value differs from the target probability under every reading of the returned event: expected "
                    f"{truth}, got {got} (base values {sigma})")
    return None


def _query_subscript_values(vars_enc, sigma, sigma2):
    """name -> values the QUERY gives it as a subscript (literal interventions)"""
    out = {}
    for v in vars_enc:
        for z, s in v[4]:
            out.setdefault(int(z), set()).add((sigma2 if s == "p" else sigma)[int(z)])
    return out


def _own_simplified(case):
    """SIMPLIFY of the queried event by the harness's own graph code (Correa et al. 2022, Algorithm 1, for events without
    a self-intervened variable and without a variable that has two values in one world): every variable in minimal form,
    repeated items merged, a valueless copy absorbed by a valued one.  Set of (name, minimal subscripts, star)."""
    di = [tuple(e) for e in case["g"]["di"]]
    grp = {}
    for v in case["event"]:
        name, S = _min_var(di, v)
        grp.setdefault((name, S), set()).add(v[2])
    return {(n, S, st) for (n, S), sts in grp.items() for st in (sts - {"n"} or sts)}


def _event_check(case, ret_event):
    """(e): the returned event of ctfTRu is the simplified query event"""
    own = _own_simplified(case)
    got = [(int(v[1]), frozenset((int(z), s) for z, s in v[4]), v[2]) for v in ret_event]
    if len(set(got)) != len(got):
        return f"returned event is not simplified: it repeats an item: {E.to_str_tree(ret_event)}"
    if set(got) != own:
        show = lambda xs: sorted((n, sorted(S), st) for n, S, st in xs)  # noqa: E731
        return (f"returned event is not the simplified event of the query (minimal subscripts, no repeated item): expected "
                f"{show(own)}, got {show(got)}")
    return None


def _zero_check(case, queried, cond=None):
    g = case["g"]
    nodes = sorted(G.all_nodes(g))
    fam = FE.Family({"nodes": nodes, "di": g["di"], "bi": g["bi"]}, {}, random.Random(case["eval_seed"]), den=4, tri_latents=False)
    ft = FE.FunctionalTarget(fam)
    rng = random.Random(case["eval_seed"] + 7)
    sigma = {v: rng.randrange(2) for v in nodes}
    sigma2 = {v: 1 - sigma[v] for v in nodes}
    atoms = _atoms(list(queried) + list(cond or []), sigma, sigma2)
    if atoms == "inconsistent-subscripts":
        return None
    p = ft.prob(atoms)
    if p != 0:
        return f"returned Zero() for an event of probability {p} in a positive model (base values {sigma})"
    return None


# ------------------------------------------------------------------------------------------------ real code

def _family(case):
    g = case["g"]
    nodes = sorted(G.all_nodes(g))
    doms = case["domains"]
    marks, cut, _tp = _marks_cut(doms)
    return _visible(FE.Family({"nodes": nodes, "di": g["di"], "bi": g["bi"]}, marks, random.Random(case["eval_seed"]), cut=cut,
                              den=4, tri_latents=False), case["eval_seed"])


def _digest(case, enc):
    import hashlib
    try:
        fam = _family(case)
        arr = np.broadcast_to(fam.ev(_retag(enc, _target_policy(case["domains"]))), tuple(fam.card[v] for v in fam.nodes))
        return hashlib.sha1(" ".join(str(x) for x in arr.reshape(-1)).encode()).hexdigest()[:16]
    except FE.EvalError as e:
        return "evalerr:" + str(e)[:50]


def _has_reflexive(vars_enc):
    return any(any(int(z) == int(v[1]) for z, _ in v[4]) for v in vars_enc)


def _in_quantifier(case):
    return "malformed" not in case and not any(d.get("drop_bi") for d in case["domains"])


def _fail_check(case):
    """(f) FAIL although transportable - only on the streams built so that ONE entry of the domain list suffices: when the
    procedure refuses the query on the full list but answers it from a single entry of the same list alone, with a value
    the exact oracle accepts, the refusal is wrong (Algorithm 4 tries every domain in turn and Algorithm 2 refuses only
    when some ctf-factor can be transported from NO domain: an answer from a sub-list is an exact witness)"""
    for k in range(len(case["domains"])):
        sub = json.loads(json.dumps(case))
        sub["domains"] = [sub["domains"][k]]
        sub["stream"] = "fail_witness"
        sub.pop("forms", None)
        try:
            r = run_python(sub)
        except Exception:  # noqa: BLE001
            continue
        if r["out"][0] == "ok" and r["tags"].get("outcome") == "answer" and r["fail"] is None:
            return (f"FAIL although the query is transportable: entry {k} of the domain list alone answers it (value accepted "
                    "by the exact oracle); Algorithm 4 must try every domain")
    return None


def run_python(case):
    logging.getLogger("y0").setLevel(logging.CRITICAL)
    from y0.algorithm.counterfactual_transport import api
    from y0.dsl import Zero

    kind = case["kind"]
    g = case["g"]
    nodes = G.all_nodes(g)
    tags = {"kind": kind, "n_nodes": len(nodes), "n_domains": len(case["domains"]), "malformed": case.get("malformed", "-"),
            "stream": case.get("stream", "random")}
    fail = None
    try:
        target, domains = _build(case)
    except Exception as e:  # building the inputs failed (e.g. y0 rejects the graph): not a case
        return {"out": ["skip", type(e).__name__], "fail": None, "nontrivial": False, "tags": dict(tags, outcome="skip")}
    try:
        domain_graphs = [(d.graph, d.ordering or list(d.graph.topological_sort())) for d in domains]   # as the public wrappers
    except Exception as e:  # noqa: BLE001  (an empty order over a cyclic graph: not a case)
        return {"out": ["skip", type(e).__name__], "fail": None, "nontrivial": False, "tags": dict(tags, outcome="skip")}
    domain_data = [(d.policy_variables, d.population) for d in domains]
    # 1. the procedure's own validation
    vclass = None
    try:
        if kind == "uncond":
            ev_vars = [_y0_var(v) for v in case["event"]]
            api._validate_transport_unconditional_counterfactual_query_input(
                event=api._event_from_counterfactuals(ev_vars), target_domain_graph=target,
                domain_graphs=domain_graphs, domain_data=domain_data)
        else:
            outs = [_y0_var(v) for v in case["outcomes"]]
            conds = [_y0_var(v) for v in case["conditions"]]
            api._validate_transport_conditional_counterfactual_query_input(
                outcomes=api._event_from_counterfactuals_strict(outs), conditions=api._event_from_counterfactuals_strict(conds),
                target_domain_graph=target, domain_graphs=domain_graphs, domain_data=domain_data)
    except (TypeError, ValueError, NotImplementedError) as e:
        vclass = type(e).__name__
    except Exception as e:  # noqa: BLE001
        vclass = "other:" + type(e).__name__
    tags["validation"] = vclass or "accepted"
    # 2. the call
    res, exc = None, None
    try:
        if kind == "uncond":
            res = api.unconditional_cft(event=_arg(case["event"], case), target_domain_graph=target, domains=domains)
        else:
            res = api.conditional_cft(outcomes=_arg(case["outcomes"], case), conditions=_arg(case["conditions"], case),
                                      target_domain_graph=target, domains=domains)
    except RecursionError as e:
        exc = e
    except Exception as e:  # noqa: BLE001
        exc = e
    if vclass is not None:
        out = ["err", "invalid"]
        tags["outcome"] = "invalid"
        if exc is None:
            fail = f"validation raises {vclass} but the procedure answered"
        if vclass.startswith("other:"):
            tags["validator_crash"] = vclass
            fail = (f"the validator itself raised {vclass[6:]} (only TypeError / ValueError / NotImplementedError reject an "
                    "input)")
    elif exc is not None:
        tb = traceback.extract_tb(exc.__traceback__)
        where = next((f"{f.name}:{f.lineno}" for f in reversed(tb) if "/y0/" in f.filename), "?")
        out = ["err", "internal"]
        tags["outcome"] = "exception"
        tags["exception"] = type(exc).__name__
        fail = (f"{type(exc).__name__} ({str(exc)[:100]}) at {where} after the procedure's own validation accepted the input "
                "(only an answer or FAIL is allowed)")
    elif res is None:
        out = ["fail"]
        tags["outcome"] = "fail"
        if case.get("stream") in ("multi_domain", "fallthrough") and _in_quantifier(case) and len(nodes) <= 5:
            fail = _fail_check(case)
    else:
        enc = E.enc_expr(res.expression)
        ret_event = None if res.event is None else _enc_event(res.event)
        out = ["ok", _digest(case, enc), E.to_str_tree(enc), E.to_str_tree(ret_event) if ret_event is not None else "none"]
        tags["outcome"] = "zero" if isinstance(res.expression, Zero) else "answer"
        queried = case["event"] if kind == "uncond" else case["outcomes"]
        cond = None if kind == "uncond" else case["conditions"]
        if len(nodes) <= (6 if case.get("stream") == "six_node" else 5) and _in_quantifier(case):
            if isinstance(res.expression, Zero):
                fail = _zero_check(case, queried, cond)
            elif ret_event is None:
                fail = "non-zero expression returned without an event"
            else:
                fail = _value_check(case, enc, ret_event, queried, cond)
                # verdict of the value clause alone, for the theorem/oracle tie (see _Out.__eq__)
                out.append("value_bad" if fail else "value_ok")
                if fail is None and kind == "uncond" and not _has_reflexive(queried):
                    fail = _event_check(case, ret_event)
    if "malformed" in case and vclass is None and fail is None and case["malformed"] not in ("overlap_cond", "target_tag_other_graph"):
        # the malformed stream is meant to be rejected; an accepted one is only recorded (the validators define validity)
        tags["malformed_accepted"] = case["malformed"]
    subs = any(v[4] for v in (case.get("event") or []) + (case.get("outcomes") or []) + (case.get("conditions") or []))
    nontrivial = vclass is None and len(nodes) >= 3 and subs
    return {"out": out, "fail": fail, "nontrivial": nontrivial, "tags": tags}


# ------------------------------------------------------------------------------------------------ model side

MODEL_READY = True


def request(case):
    """the model decides the complete procedure: validator verdict (error category), and for accepted inputs FAIL /
    Zero / the expression and the returned event of Algorithm 2 (`transport ctf_uncond`) resp. Algorithm 3 (`ctftr cond`)"""
    if not MODEL_READY:
        return None
    mal = case.get("malformed")
    if mal in ("tnode_in_target", "cyclic_target", "extra_vertex", "target_tag_other_graph", "bad_topo", "cyclic_domain"):
        return None    # these are built on the y0 side only (the model receives the same checks through other cases)
    if any(d.get("drop_bi") for d in case["domains"]):
        # whether the run ends in FAIL or in Algorithm 4's ValueError depends on the order in which Python's sets yield
        # the ctf-factors (the first FAIL ends the loop); only the oracle's trichotomy clause is applied to this stream
        return None
    g = case["g"]
    gs = C.graph_sexp(G.all_nodes(g), g["di"], g["bi"])
    doms = []
    for k, d in enumerate(case["domains"]):
        gd = domain_graph_dict(g, d)
        order = _topo(gd, case.get("topo_seed", 1) + k)
        if (case.get("forms") or {}).get("ordering_none"):
            # the wrapper takes the graph's own topological sort: the model is given that order
            order = [G.name_to_int(v.name) for v in G.to_nx_mixed(gd).topological_sort()]
        doms.append([d["pop"], C.graph_sexp(G.all_nodes(gd), gd["di"], gd["bi"]), order, d["policy"]])
    if case["kind"] == "uncond":
        # (ok <in the class of Props/C09Sound ctfTRu_sound_partial> <answer of ctfTRu>)
        return C.enc(["ctftr", "uncond", gs, doms, case["event"]])
    return C.enc(["ctftr", "cond", gs, doms, case["outcomes"], case["conditions"]])


def _tie_report():
    """keep the last entry of ASSUMPTIONS (copied into the evidence file at the end of a run) up to date with the measured
    share of answered cases inside the classes of the two value theorems"""
    st = _Out.stats
    ASSUMPTIONS[-1] = (
        "theorem/oracle tie, THIS RUN: unconditional: %d of %d answered cases in the class of ctfTRu_sound_partial "
        "(%d contradicted by the oracle); conditional: %d of %d answered cases in the class of ctfTR_sound_partial "
        "(%d contradicted by the oracle)" % (
            st.get("in_theorem_class_uncond", 0), st.get("answered_uncond", 0), st.get("theorem_contradicted_uncond", 0),
            st.get("in_theorem_class_cond", 0), st.get("answered_cond", 0), st.get("theorem_contradicted_cond", 0)))


class _Out(list):
    """model output; equal to the Python's when the verdicts agree and (for an answer) the expressions have the same
    exact values on the case's family (or the same structure) and the simplified events are the same set"""
    stats = {"structural": 0, "semantic_only": 0, "mismatch": 0}

    def __eq__(self, other):
        if not isinstance(other, list) or not other:
            return False
        if self[0] == "valid-only":          # conditional: only the validator is modelled
            return (self[1] == "invalid") == (other[0] == "err" and other[1] == "invalid")
        if self[0] != other[0]:
            return False
        if self[0] == "err":
            return self[1] == other[1]
        if self[0] != "ok":
            return True
        ev_ok = (self[3] == other[3]) or (isinstance(self[3], list) and isinstance(other[3], list)
                                            and sorted(map(json.dumps, self[3])) == sorted(map(json.dumps, other[3])))
        if not ev_ok:
            _Out.stats["mismatch"] += 1
            return False
        kind = self[5] if len(self) > 5 else "uncond"
        if len(self) > 4 and self[3] != "none":
            _Out.stats["answered_" + kind] = _Out.stats.get("answered_" + kind, 0) + 1
        if len(self) > 4 and self[4] == "in_class":
            # THEOREM / ORACLE TIE: the model says the input satisfies the decidable hypotheses of the proved value clause
            # (ctfTRu_sound_partial: every item valued, no self-intervened variable, ctfSoundClass, a reading exists;
            # ctfTR_sound_partial: CtfTr.ctfTRSoundClass, a reading of the query's values and subscripts exists); then the
            # exact oracle must have accepted the value, whatever known-finding class the input's signature falls in.  A
            # contradiction is reported as a disagreement with this concrete input.
            _Out.stats["in_theorem_class_" + kind] = _Out.stats.get("in_theorem_class_" + kind, 0) + 1
            if len(other) > 4 and other[4] == "value_bad":
                _Out.stats["theorem_contradicted_" + kind] = _Out.stats.get("theorem_contradicted_" + kind, 0) + 1
                _tie_report()
                return False
        _tie_report()
        if self[2] == other[2]:
            _Out.stats["structural"] += 1
            return True
        if self[1] == other[1] and not str(self[1]).startswith("evalerr"):
            _Out.stats["semantic_only"] += 1
            return True
        _Out.stats["mismatch"] += 1
        return False

    def __ne__(self, other):
        return not self.__eq__(other)

    __hash__ = None


def canon_model(case, rep):
    in_class = None
    if case["kind"] == "cond":
        # (ok <order-sensitive> <in-class> <answer>): the answer of the complete Algorithm 3 and `CtfTr.ctfTRInClass` = the
        # decidable hypotheses of the value theorem of Algorithm 3 (ctfTR_sound_partial)
        order_sensitive, in_class, rep = rep[1] == "true", rep[2] == "true", rep[3]
        if order_sensitive:
            # the verdict of Algorithm 3's final checks depends on which of two entries of a Python dict comprehension
            # over a set-ordered list wins (CtfTr.finalChecksOrderSensitive): only the validator's verdict is compared
            _Out.stats["order_sensitive"] = _Out.stats.get("order_sensitive", 0) + 1
            return _Out(["valid-only", "invalid" if (rep[0] == "err" and rep[1] == "invalid") else "accepted"])
    if case["kind"] == "uncond":
        # (ok <in-class> <answer>): `CtfTr.ctfTRuInClass` = the decidable hypotheses of the value theorem of Algorithm 2
        in_class, rep = rep[1] == "true", rep[2]
    if rep[0] == "err":
        return _Out(["err", "invalid" if rep[1] == "invalid" else "internal"])
    if rep[0] == "fail":
        return _Out(["fail"])
    enc, ev = rep[1], rep[2]
    out = _Out(["ok", _digest(case, enc), E.to_str_tree(enc), "none" if ev == "none" else sorted(E.to_str_tree(ev), key=json.dumps)])
    if in_class is not None:
        out.append("in_class" if in_class else "out_class")
        out.append(case["kind"])
    return out


def _key_class(case, res):
    k = finding_key(case, res)
    return "exact" if k.startswith("{") else k


def shrink(case):
    """candidates that fail in the SAME class as `case` (a failure outside every known-finding class must not drift into
    a known class while it is shrunk: the runner's predicate is only "still fails")"""
    r0 = run_python(case)
    if not r0.get("fail"):
        yield from _shrink_candidates(case)
        return
    cls0 = _key_class(case, r0)
    for cand in _shrink_candidates(case):
        try:
            r = run_python(cand)
        except Exception:  # noqa: BLE001
            continue
        if r.get("fail") and _key_class(cand, r) == cls0:
            yield cand


def _shrink_candidates(case):
    key = "event" if case["kind"] == "uncond" else None
    for gg in G.shrink_graph(case["g"]):
        live = set(G.all_nodes(gg))
        c = json.loads(json.dumps(case))
        c["g"] = gg

        def keep(vs):
            return [[v[0], v[1], v[2], v[3], [iv for iv in v[4] if iv[0] in live]] for v in vs if v[1] in live]
        for k in ("event", "outcomes", "conditions"):
            if k in c:
                c[k] = keep(c[k])
        for d in c["domains"]:
            for k in ("tmarks", "policy", "cut"):
                d[k] = [v for v in d[k] if v in live]
            if d.get("drop_bi"):
                d["drop_bi"] = [e for e in d["drop_bi"] if sorted(e) in [sorted(x) for x in gg["bi"]]]
        if all(c.get(k, [1]) for k in ("event", "outcomes", "conditions") if k in c):
            yield c
    if len(case["domains"]) > 1:
        for k in range(len(case["domains"])):
            c = json.loads(json.dumps(case))
            del c["domains"][k]
            yield c
    for k in ("event", "outcomes", "conditions"):
        if k in case and len(case[k]) > 1:
            for j in range(len(case[k])):
                c = json.loads(json.dumps(case))
                del c[k][j]
                yield c
    for k in ("event", "outcomes", "conditions"):
        for j, v in enumerate(case.get(k, [])):
            for i in range(len(v[4])):
                c = json.loads(json.dumps(case))
                del c[k][j][4][i]
                yield c
    for j, d in enumerate(case["domains"]):
        for k in ("tmarks", "policy", "cut"):
            for i in range(len(d[k])):
                c = json.loads(json.dumps(case))
                del c["domains"][j][k][i]
                if k == "policy":
                    c["domains"][j]["cut"] = [v for v in c["domains"][j]["cut"] if v in c["domains"][j]["policy"]]
                yield c
    del key


def _raw(v):
    return int(v[1]), frozenset((int(z), s_) for z, s_ in v[4])


def _min_var(di, v):
    """||Y_x||: the subscripts that are ancestors of Y once the edges into the subscripted variables are removed"""
    name, S = _raw(v)
    an = FE.ancestors(di, {name}, removed_in={z for z, _ in S})
    return name, frozenset((z, s_) for z, s_ in S if z in an and z != name)


def _ctf_ancestors(di, W, S):
    """counterfactual ancestors of W_S (Correa et al. 2022, Def. 4.1), as (name, minimal subscripts)"""
    names = {z for z, _ in S}
    an = FE.ancestors([e for e in di if e[0] not in names], {W})
    return {(A, frozenset((z, s_) for z, s_ in S if z != A and z in FE.ancestors(di, {A}, removed_in=names))) for A in an}


def _inconsistent_factor(case):
    """ctfTRu: Definition 4.1 of Correa et al. 2022 on the literal values of the query, with the harness's own graph code:
    some ctf-factor (the ancestors W* of the minimised event in ctf-factor form, grouped by the districts of G[An]) holds
    (i) an event variable A = a together with a variable C_{..A = a'..}, a' != a, or (ii) two variables C_{..A = a..},
    C'_{..A = a'..}, a != a'.  Line 3 of Algorithm 2 answers FAIL on such a query, so an ANSWER with a wrong value is not a
    manifestation of the open `two_values` finding (whose inputs carry the two values in DIFFERENT ctf-factors)."""
    g = case["g"]
    di = [tuple(e) for e in g["di"]]
    bi = [tuple(e) for e in g["bi"]]
    mins = [_min_var(di, v) + (v[2],) for v in (case.get("event") or [])]
    anc = set()
    for n, S, _ in mins:
        anc |= _ctf_ancestors(di, n, S)
    names = {a for a, _ in anc}
    dist = {}
    for d in FE.districts(sorted(names), [e for e in bi if e[0] in names and e[1] in names]):
        for v in d:
            dist[v] = d
    # the literal value (A, s) sits, in ctf-factor form, on the ancestors C of the event variable that are children of A
    lit = [(Cn, A, s_) for Cn, SC in anc for A, s_ in SC if (A, Cn) in di]
    val = [(n, star) for n, _S, star in mins if star != "n"]
    for Cn, A, s_ in lit:
        if any(n == A and star != s_ and A in dist and dist[A] == dist[Cn] for n, star in val):
            return True
        if any(A2 == A and s2 != s_ and dist[C2] == dist[Cn] for C2, A2, s2 in lit):
            return True
    return False


def signature(case):
    """syntactic features of the query, computed with the harness's own graph code on the MINIMISED query (a subscript that
    is not an ancestor of its variable is dropped first), that the known (inherited, not small) defects depend on:

      reflexive      a variable intervened on itself (Y_y)                                  [C19 simplify-reflexive]
      two_values     after minimisation some variable name carries two different values (as event value or subscript)
      multi_world    after minimisation the same variable occurs in two different worlds     [C19 factorisation multi-world]
      literal_bound  a (kept) literal subscript z of one event variable is an ancestor, in its own world, of another
                     event variable that is not subscripted by z and is not z               [C19 factorisation literal-bound];
                     ctfTR: also a kept literal subscript named like an OUTCOME (the denominator sums over that name)
      miss_all/some  ctfTR only: the outcome Y_x is looked up in the ancestral components under its raw name, but the
                     components store the members of An(W_t), W_t an outcome or a condition, computed in the graph whose
                     edges out of the conditioned ancestors of W_t are cut (Def. 2.1 / 4.2, as y0 builds them: a
                     self-intervened Y_y keeps its subscript); miss = the raw variable is a member of none of these sets
                     (for all / for some outcomes).  EXACTLY the complement of the model's class `CtfTr.OutcomesFound`
                     (miss_all <=> the derived event D* is empty), cross-checked by tools/c09_errsearch.py --sig
      has_none       some variable has no value
      simplify_risk  a self-intervened variable Y_y and a valueless variable with the same name Y
      domain_drops_bi  a domain graph lacks a bidirected edge of the target (Algorithm 4's ValueError)
    """
    g = case["g"]
    outs = (case.get("event") or []) + (case.get("outcomes") or [])
    conds = case.get("conditions") or []
    vars_ = outs + conds
    di = [tuple(e) for e in g["di"]]
    reflexive = any(any(int(z) == int(v[1]) for z, _ in v[4]) for v in vars_)
    mins = [_min_var(di, v) + (v[2],) for v in vars_]
    vals, worlds = {}, {}
    for name, S, star in mins:
        vals.setdefault(name, set()).add("m" if star == "n" else star)
        for z, s_ in S:
            vals.setdefault(z, set()).add(s_)
        worlds.setdefault(name, set()).add(S)
    two_values = any(len(x) > 1 for x in vals.values())
    multi_world = any(len(w) > 1 for w in worlds.values())
    literal_bound = False
    for _a, Sa, _ in mins:
        for z, _s in Sa:
            for b, Sb, _ in mins:
                if z == b or z in {q for q, _ in Sb}:
                    continue
                if z in FE.ancestors(di, {b}, removed_in={q for q, _ in Sb}):
                    literal_bound = True
    if conds:     # ctfTR's denominator sums over the outcome names: a literal subscript named like an outcome is captured
        out_names = {int(v[1]) for v in outs}
        if any(z in out_names for _a, Sa, _ in mins for z, _s in Sa):
            literal_bound = True
    miss = []
    if conds:
        def an_of(edges, v):       # get_ancestors_of_counterfactual, Def. 2.1 (the harness's own graph code)
            W, S = v
            if not S:
                return {(a, frozenset()) for a in FE.ancestors(edges, {W})}
            X = {z for z, _ in S}
            below = FE.ancestors([e for e in edges if e[0] not in X], {W})
            return {(a, frozenset((z, s_) for z, s_ in S if z in FE.ancestors(edges, {a}, removed_in=X))) for a in below}

        def minimised(v):          # ||Y_x||: a subscript stays iff it is an ancestor of Y in the graph without the edges into X
            W, S = v
            keep = FE.ancestors(di, {W}, removed_in={z for z, _ in S})
            return W, frozenset((z, s_) for z, s_ in S if z in keep)

        minc = {minimised(_raw(c)) for c in conds}
        stored = set()             # the members of every ancestral set An(W_t) in G with the edges out of X_*(W_t) cut
        for r in {_raw(v) for v in outs + conds}:
            cx = {c[0] for c in minc if c in an_of(di, r)}
            stored |= an_of([e for e in di if e[0] not in cx], r)
        miss = [_raw(v) not in stored for v in outs]
    refl_names = {int(v[1]) for v in vars_ if any(int(z) == int(v[1]) for z, _ in v[4])}
    return {"reflexive": reflexive, "two_values": two_values, "multi_world": multi_world, "literal_bound": literal_bound,
            "has_none": any(v[2] == "n" for v in vars_), "miss_all": bool(miss) and all(miss),
            "miss_some": any(miss) and not all(miss),
            # SIMPLIFY's TypeError needs a self-intervened Y_y TOGETHER WITH a valueless variable of the same name
            # (Lean: CtfTr.SimplifyRisk, `simplify_no_error_outside_risk`)
            "simplify_risk": any(v[2] == "n" and int(v[1]) in refl_names for v in vars_),
            "domain_drops_bi": any(d.get("drop_bi") for d in case["domains"]),
            # third round (narrows the value:two_values / multi_world / literal_bound classes of ctfTRu): Algorithm 2 must
            # refuse a query with an inconsistent ctf-factor, so a wrong ANSWER there is a different defect
            "inconsistent_factor": case["kind"] == "uncond" and not reflexive and _inconsistent_factor(case)}


_CRASH = "after the procedure's own validation accepted"


def finding_key(case, res):
    """explained failure classes get a class key (one open finding per class, see known_findings.jsonl): the key names the
    KIND OF OUTCOME (wrong value / wrong zero / exception class at a named check) and the syntactic cause, and is given
    only when both are present; anything else is keyed by the exact input, so an unexplained failure is always reported"""
    fail = (res or {}).get("fail") or ""
    sig = signature(case)
    kind = case["kind"]
    cls = None
    if _CRASH in fail:
        # (the crash classes crash:ctfTR-derived-event-rejected / crash:ctfTR-final-check of Algorithm 3 are FIXED, repo
        # f335599: an exception of ctfTR after validation is attributed to no class any more - Lean ctfTR_no_internal_error)
        # (crash:simplify-typeerror is FIXED, repo c8cad49 + 333fa44: a TypeError of SIMPLIFY after validation is attributed
        # to no class any more - Lean simplify_no_error / ctfTRu_no_internal_error)
        if (fail.startswith("ValueError (") and sig["domain_drops_bi"]
              and ("at transport_district_intervening_on_parents:" in fail
                   or ("at identify_district_variables:" in fail and "is not in list" in fail))):
            # the district of the target is not bidirected-connected in the domain graph (whole graph: Algorithm 4's own
            # check; inside an ancestral set: `.index(True)` of Tian's IDENTIFY)
            cls = "crash:sigmaTR-district-split"
    elif fail.startswith("returned Zero()"):
        if sig["reflexive"]:
            cls = "zero:reflexive"
        elif kind == "cond" and sig["multi_world"] and sig["two_values"]:
            cls = "zero:multi_world"
    elif fail.startswith("value differs"):
        for k in ("reflexive", "two_values", "multi_world", "literal_bound"):
            if sig[k] and not sig["inconsistent_factor"]:
                cls = "value:" + k
                break
        # (value:outcome-lookup-miss / value:outcome-also-condition are FIXED, repo f335599: a wrong value on a query whose
        # outcome is not in minimal form is attributed to no class of its own any more)
    if cls is not None:
        return f"{kind}:{cls}" if cls.startswith("value") or cls.startswith("zero") else cls
    c = {k: case[k] for k in ("kind", "event", "outcomes", "conditions", "domains", "malformed") if k in case}
    g = case["g"]
    c["g"] = {"nodes": sorted(G.all_nodes(g)), "di": sorted(map(list, g["di"])), "bi": sorted(sorted(e) for e in g["bi"])}
    return json.dumps(c, sort_keys=True)


MANIFEST = {
    "text": ("Partial. Lean theorems about the model Y0.Model.CtfTr of api.py (validators of ctfTRu / ctfTR as decision "
             "functions, Algorithm 4, Algorithm 2 composed from the `ctf` family's models of SIMPLIFY / counterfactual "
             "ancestors / ancestral components / ctf-factors and the `tian` family's model of IDENTIFY; Algorithm 3 complete: "
             "derivation of D*, Algorithm 2 on it, line 4 and the five final checks), 62 theorems in Props/C09 + Props/C09Sound (ctfTRu_correct_partial states the three clauses for Algorithm 2 together): THE VALUE CLAUSE FOR ALGORITHM 2 IS PROVED (ctfTRu_sound_partial): whenever ctfTRu answers (x, ev) for a validated input without a self-intervened variable whose simplified event has no valueless item and lies in the decidable class ctfSoundClass, then in every family of functional SCMs compatible with the target graph and the declared domains, at every valuation carrying the returned event's values, x evaluated on the declared domain distributions equals the target probability of the queried event - composed, with no link left as a hypothesis, from C19 (SIMPLIFY preserves the probability; the ctf-factor factorisation, here as a sum of products of c-factors: ctf_factorisation_cfactors), the syntactic link between line 2 of Algorithm 2 and the factorisation, C17 (IDENTIFY, c-factor routines) through sigmaTR_sound_family (Algorithm 4 returns Q*[district] of the TARGET model) and the transportability lemma cfactor_transportability (no selection node into the district and no policy variable in it => same c-factor in source and target), with a concrete two-domain family as non-vacuity witness; ctfTRu_sound_free_partial / ctfTRu_sound_fun cover valueless items read as free variables; THE VALUE CLAUSE FOR ALGORITHM 3 IS PROVED inside the decidable class ctfTRSoundClass (ctfTR_sound_partial: one world across all ancestral components, outcomes given in the minimal form the components store, no self-intervention, no literal subscript naming a summed vertex - a predicate on graph and query only; every compatible family in which the conditions have positive probability; the returned fraction equals P*(outcomes and conditions)/P*(conditions)) - the two identities of ctfTR_sound_of_parts are discharged by a syntax-free semantic core (CondSem / cond_parts: composition axiom for the edges cut at conditioned ancestors, consistency of the members of the ancestral sets, marginalisation over valueless ancestors and over the outcomes, independence of the ancestral components without an outcome) and J = Q[V(D*)] (dstar_prob_eq_cfactor); ctfTR_zero_sound_partial (Zero only for impossible events, one-world D*) and ctfTR_correct_partial (the three clauses together) complete Algorithm 3; theorem and oracle are tied on every in-class conditional case. the validators reject with the documented classes only and an accepted "
             "input has the stated shape (validateU_error_class, validateC_error_class, validateU_accepts, validateC_strict); "
             "an 'invalid input' outcome is exactly a rejection by the procedure's own validator and an accepted input is "
             "answered, refused, or ends in a non-validation error (ctfTRu_invalid_iff, ctfTRu_trichotomy, "
             "ctfTR_invalid_iff, ctfTR_trichotomy); an answer of Algorithm 3 is Fraction(Sum.safe(Q, A), Sum.safe(Q, B)) with "
             "A a subset of B, its event is the outcomes plus a sub-list of the conditions with the query's values, and Zero() "
             "comes only from SIMPLIFY on D* (ctfTR_answer_shape, ctfTR_event_shape, ctfTR_zero_only_from_simplify); Zero() is returned exactly when SIMPLIFY finds the event inconsistent, and then - for events "
             "without a self-intervened variable - the event has probability 0 in every compatible functional SCM "
             "(ctfTRu_zero_only_from_simplify, ctfTRu_zero_of_simplify, ctf_zero_sound_partial via C19); the returned event is "
             "SIMPLIFY's output and every ctf-factor is transported from a domain with no policy variable and no selection "
             "node on its district (ctfTRu_event_is_simplified, sigmaTR_uses_usable_domain, transportFactors_all); NEVER ANOTHER ERROR IS PROVED FOR BOTH PROCEDURES on every validated input whose selection diagrams agree with the target graph, "
             "after three repairs of the code (repo c8cad49, 333fa44, f335599): ctfTRu_no_internal_error (no class of events excluded: "
             "simplify_no_error, validateU_selfNone, line2_total, sigmaTRDomain_no_error, transportFactors_no_error) and "
             "ctfTR_no_internal_error (no class of queries excluded: every outcome is found in the ancestral components under its "
             "lookup key, Ctf.ancestralSetRoot_mem / ctfTR_outcomes_found; with ctfTR_q_good: the expression Q of Algorithm 2 is never "
             "Zero() and mentions only graph vertices and variables of the domain distributions; for domain distributions that list "
             "counterfactual variables ctfTR_no_internal_error_anypop_partial needs OutcomeNotCondition), and an "
             "expression returned by Algorithm 4 denotes Q[district] of the domain's model (sigmaTR_sound, via C17 "
             "cfactor_sound / tian_sound). NOT "
             "proved: the value clause outside ctfSoundClass (FALSE of the current code on the inputs of the open findings value:*), the value clause of Algorithm 3 outside ctfTRSoundClass (false on the findings cond:value:*; not decided for a literal subscript naming an outcome and multi-world queries the code happens to answer correctly), and the absence of non-validation errors WITHOUT the hypothesis DomainsAgree "
             "(false on the one remaining crash class, open finding crash:sigmaTR-district-split: Algorithm 4 raises ValueError when a domain graph lacks a bidirected edge of the target inside a ctf-factor; such domain graphs are outside the quantifier of C09 - a selection diagram over the same nodes keeps the target's edges - but the validator accepts them and the pinned suite uses them). These clauses are decided on every run by the correspondence (validators exact; "
             "Algorithms 2 and 3: verdict, returned event and exact value of the expression) and by the exact functional-SCM "
             "oracle (noise-space enumeration of P*(event), policies as fresh mechanisms): trichotomy, zero-soundness and "
             "value on every answered case."),
    "note": ("Trusted: Lean kernel; axioms propext/Classical.choice/Quot.sound; the hand-written models (this family's CtfTr, "
             "the ctf family's Ctf*, the tian family's Tian) tied to api.py by sampling; the oracle's model class (positive "
             "discrete functional SCMs, one latent per bidirected edge, policies as fresh kernels at the policy variables, "
             "cut from their parents or not). Failures on inputs with the syntactic signature of an open finding "
             "(computed on the minimised query: self-intervened variable, a variable with two values or in two worlds, a literal "
             "subscript that is an ancestor of another event variable or names an outcome of ctfTR, an outcome of ctfTR that is "
             "looked up under a non-stored name) together with the finding's kind of outcome (wrong value / wrong zero / the "
             "exception class at the named check) are attributed to that finding; any other "
             "failing input is reported as a violation with its exact replay."),
    "technique": ("Lean 4 theorems on validator decision functions, on the algorithm skeleton and on the VALUE of the answer of "
                  "Algorithm 2 over families of functional SCMs (composition with C19 and C17) + differential correspondence with the "
                  "complete models of Algorithms 2-4 + exact functional-SCM oracle (trichotomy, zero-soundness, value, returned event), "
                  "theorem and oracle tied on every in-class case"),
}
