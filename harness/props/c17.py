"""C17 — Tian-Pearl c-factor identification returns the true c-factor.

Correspondence: identify_district_variables, compute_c_factor (Lemma 1 / Lemma 4 dispatch on the type of the
probability expression, population-tagged variant included), compute_c_factor_conditioning_on_topological_predecessors,
compute_c_factor_marginalizing_over_topological_successors,
compute_q_value_of_variables_with_low_topological_ordering_indices, compute_ancestral_set_q_value:
real code vs the Lean model (Y0.Model.Tian), compared structurally after canonical encoding (products as multisets,
children / parents / ranges as sets), then - only if different - by exact evaluation on a shared random model.

Oracle (from the property statement, harness/oracles/tian_scm.py): an explicit random positive semi-Markovian SCM
compatible with the graph; Q[S] = the latents summed out of the truncated factorisation = the distribution of S under
do(V \\ S).  The input expression is first checked to denote Q[T] (resp. Q[H]) at every assignment; then the
returned expression, evaluated on the observational joint of the model, must equal Q[C] (resp. Q[district], Q[A],
Q[H^(i)]) at every assignment of all variables.  An exception on an input that satisfies the preconditions of the
property is a failure as well ("returns an expression ... or reports failure").
"""
from __future__ import annotations

import functools
import json
import random

from .. import common as C
from .. import enc_expr as E
from .. import gen_graph as G
from ..oracles import tian_scm as S

PROP = "C17"
RULE = ("ADMGs with 1-7 nodes (evaluated on SCMs up to 5 nodes in the quick tier, 6 in the thorough tier); every "
        "district T; every C subset of T inducing a single district (sampled when there are many); 1-3 random linear "
        "extensions (optionally with extra names the graph does not contain); Q[T] given as a Probability P(T|Z) / "
        "population-tagged PP(T|Z) when T is a block of some topological order (Lemma-1 branch), as the Lemma-1 "
        "Product of conditionals of ANOTHER topological order, as the Lemma-4 Product/Fraction of sums of P(V), as "
        "Sum_{V\\T} P(V) when T is ancestral, and chained (the estimand returned for a sub-district T' used as the "
        "input of the next call); the five c-factor routines on ancestral sets H of G and ancestral subsets of "
        "districts with Q[H] as Probability / PP / Sum / Product; a malformed stream (C not inside T, T not in topo, T "
        "with several districts, C with several districts, One/Zero/QFactor as Q[T], empty sets, names outside the "
        "graph, duplicated or non-topological orders) for the error taxonomy.  A case is non-trivial when its "
        "preconditions hold, the input expression was confirmed to denote Q[T] on the random model and the run went "
        "through the recursive branch (A is neither C nor T) or through a c-factor routine on a set with >= 2 "
        "variables.")
ASSUMPTIONS = [
    "tian_sound / cfactor_lemma*_sound / ancestral_q_sound are proved for the Lean model (Y0.Model.Tian); the tie to tian_id.py is this run's correspondence sampling",
    "model class of the theorems and of the oracle: discrete variables, positive rational parameters, independent root latents shared only across bidirected edges (Spec/Scm); population tags read the same single-domain model",
    "a Probability given as Q[T] is required (hypothesis ProbShape) to have exactly T as children and parents disjoint from T: the Lemma-1 branch ignores the children of the expression, so an expression that denotes Q[T] only by numerical coincidence in one model is outside the theorem",
    "completeness ('None only when Q[C] is not identifiable from Q[T]') is not part of the property and not claimed",
    "set iteration order (frozenset of Variables) only affects the order of factors in a Product and of parents in a population-tagged Probability; both are compared as multisets / sets",
]
EXHAUSTIVE = {"quick": False, "thorough": False}
LEANCHECK_MODULES = ["Y0.Model.Tian", "Y0.Model.TianDsl", "Y0.Props.C17"]

OPS = ["identify", "c_factor", "lemma1", "lemma4", "low_index", "ancestral"]


# ------------------------------------------------------------------------------------------ encoding helpers

def pv(i):
    return E.plain(i)


def cv(i, dos):
    return ["v", i, "n", "0", [[z, "m"] for z in sorted(set(dos))]]


def eP(children, parents=(), pop=None, dos=()):
    """P(children | parents), optionally population-tagged, optionally in the world do(dos) (P[dos](...))"""
    ch = [cv(i, dos) for i in children]
    pa = [cv(i, dos) for i in parents]
    if pop is None:
        return ["P", ch, pa]
    return ["PP", pv(pop), ch, pa]


def eSum(ranges, e):
    ranges = sorted(set(ranges))
    return ["sum", [pv(i) for i in ranges], e] if ranges else e


def eProd(fs):
    fs = list(fs)
    return fs[0] if len(fs) == 1 else ["prod"] + fs


def enc_shared(e, memo=None):
    """enc_expr with sharing: the estimands are small DAGs, exponentially large as trees"""
    from y0.dsl import Fraction, One, PopulationProbability, Probability, Product, QFactor, Sum, Zero

    memo = {} if memo is None else memo
    k = id(e)
    if k in memo:
        return memo[k][1]
    if isinstance(e, PopulationProbability):
        r = ["PP", E.enc_var(e.population), [E.enc_var(v) for v in e.children], [E.enc_var(v) for v in e.parents]]
    elif isinstance(e, Probability):
        r = ["P", [E.enc_var(v) for v in e.children], [E.enc_var(v) for v in e.parents]]
    elif isinstance(e, Product):
        r = ["prod"] + [enc_shared(x, memo) for x in e.expressions]
    elif isinstance(e, Sum):
        r = ["sum", E.enc_vars_sorted(e.ranges), enc_shared(e.expression, memo)]
    elif isinstance(e, Fraction):
        r = ["frac", enc_shared(e.numerator, memo), enc_shared(e.denominator, memo)]
    elif isinstance(e, One):
        r = "one"
    elif isinstance(e, Zero):
        r = "zero"
    elif isinstance(e, QFactor):
        r = ["Q", E.enc_vars_sorted(e.domain), E.enc_vars_sorted(e.codomain)]
    else:
        raise TypeError(type(e))
    memo[k] = (e, r)
    return r


def _vkey(v):
    return (int(v[1]), str(v[2]), str(v[3]), [(int(a), str(b)) for a, b in v[4]])


def canon_expr(e, memo=None):
    """canonical, order-insensitive form (strings everywhere): children / parents / ranges sorted, product factors
    sorted by their canonical text.  Returns (canonical tree, canonical text)."""
    memo = {} if memo is None else memo
    k = id(e)
    if k in memo and memo[k][0] is e:
        return memo[k][1]
    if isinstance(e, str):
        r = (e, e)
    else:
        tag = e[0]
        sv = lambda vs: E.to_str_tree(sorted(vs, key=_vkey))  # noqa: E731
        if tag == "P":
            t = ["P", sv(e[1]), sv(e[2])]
            r = (t, json.dumps(t))
        elif tag == "PP":
            t = ["PP", E.to_str_tree(e[1]), sv(e[2]), sv(e[3])]
            r = (t, json.dumps(t))
        elif tag == "Q":
            t = ["Q", sv(e[1]), sv(e[2])]
            r = (t, json.dumps(t))
        elif tag == "prod":
            parts = sorted((canon_expr(x, memo) for x in e[1:]), key=lambda p: p[1])
            r = (["prod"] + [p[0] for p in parts], "[prod," + ",".join(p[1] for p in parts) + "]")
        elif tag == "sum":
            b = canon_expr(e[2], memo)
            rs = sv(e[1])
            r = (["sum", rs, b[0]], "[sum," + json.dumps(rs) + "," + b[1] + "]")
        elif tag == "frac":
            n, d = canon_expr(e[1], memo), canon_expr(e[2], memo)
            r = (["frac", n[0], d[0]], "[frac," + n[1] + "," + d[1] + "]")
        else:
            raise ValueError(tag)
    memo[k] = (e, r)
    return r


# ------------------------------------------------------------------------------------------ generators

def _district_q_candidates(rng, g, T, V, di, want):
    """encoded expressions intended to denote Q[T] for a district T of G (the oracle re-checks each one)"""
    T = sorted(T)
    out = []
    desc = S.closure(set(T), lambda v: {w for (u, w) in di if u == v})
    anc = S.closure(set(T), lambda v: {u for (u, w) in di if w == v})
    block = not ((anc - set(T)) & desc)          # T is a block of some topological order
    Z = sorted(set(V) - desc)
    if "prob" in want and block:
        out.append(("prob", eP(T, Z)))
    if "pprob" in want and block:
        out.append(("pprob", eP(T, Z, pop=1001)))
    if "prob_pa" in want and block:
        out.append(("prob_pa", eP(T, sorted(anc - set(T)))))
    # the literal definition of the c-factor: the distribution of T under do(V \\ T) (or do(Pa(T) \\ T))
    pa_T = sorted({u for (u, w) in di if w in T and u not in T})
    if "iprob" in want and pa_T:
        out.append(("iprob", eP(T, dos=pa_T)))
    if "iprob_all" in want and set(V) - set(T):
        out.append(("iprob_all", eP(T, dos=sorted(set(V) - set(T)))))
    if "ipprob" in want and pa_T:
        out.append(("ipprob", eP(T, pop=1003, dos=pa_T)))
    if "iprob_mixed" in want and block and len(Z) >= 2:
        k = rng.randrange(1, len(Z))
        zs = list(Z)
        rng.shuffle(zs)
        out.append(("iprob_mixed", eP(T, sorted(zs[:k]), dos=sorted(zs[k:]))))
    order = S.random_linear_extension(rng, V, di)
    pos = {v: i for i, v in enumerate(order)}
    if "prod" in want:
        fs = [eP([t], sorted(order[:pos[t]])) for t in sorted(T, key=lambda t: pos[t])]
        rng.shuffle(fs)
        out.append(("prod" if len(fs) > 1 else "prob1", eProd(fs)))
    if "pprod" in want:
        fs = [eP([t], sorted(order[:pos[t]]), pop=1000) for t in sorted(T, key=lambda t: pos[t])]
        out.append(("pprod" if len(fs) > 1 else "pprob1", eProd(fs)))
    if "frac" in want:
        joint = eP(sorted(V))
        fs = [["frac", eSum(order[pos[t] + 1:], joint), eSum(order[pos[t]:], joint)] for t in T]
        out.append(("frac", eProd(fs)))
    if "sum" in want and anc == set(T):
        rest = sorted(set(V) - set(T))
        if rest:
            out.append(("sum", eSum(rest, eP(sorted(V)))))
    return out


def _subsets_single_district(rng, bi, T, limit):
    T = sorted(T)
    subs = []
    n = len(T)
    masks = list(range(1, 1 << n))
    if len(masks) > 4 * limit:
        masks = rng.sample(masks, 4 * limit)
    for m in masks:
        Cs = [T[i] for i in range(n) if m >> i & 1]
        if len(S.districts_of(bi, Cs)) == 1:
            subs.append(Cs)
    if len(subs) > limit:
        subs = rng.sample(subs, limit)
    return subs


def _gen_valid(rng, tier, n_graphs, nmax_eval):
    out = []
    for _ in range(n_graphs):
        big = rng.random() < 0.25
        g = G.rand_graph(rng, 1, 7 if big else nmax_eval, acyclic=True,
                         pd=rng.choice([0.3, 0.5, 0.7]), pb=rng.choice([0.2, 0.35, 0.5, 0.7]))
        V = G.all_nodes(g)
        di = [tuple(e) for e in g["di"]]
        bi = [tuple(e) for e in g["bi"]]
        # exact evaluation sums over every latent assignment (one latent per bidirected edge): bound the work
        evaluate = len(V) <= nmax_eval and (2 ** len(bi)) * (2.5 ** len(V)) <= 2e5
        base = {"g": g, "scm_seed": rng.randrange(1 << 30), "evaluate": evaluate, "q_by_construction": True}
        dists = S.districts_of(bi, V)
        for T in dists:
            cands = _district_q_candidates(rng, g, T, V, di, want={"prob", "pprob", "prob_pa", "prod", "pprod", "frac", "sum", "iprob", "iprob_all", "ipprob", "iprob_mixed"})
            subs = _subsets_single_district(rng, bi, T, 6 if tier == "quick" else 14)
            for Cs in subs:
                kinds = cands if len(cands) <= 4 else rng.sample(cands, 4)
                for kind, q in kinds:
                    topo = S.random_linear_extension(rng, V, di)
                    if rng.random() < 0.15:
                        topo.insert(rng.randrange(len(topo) + 1), 95)
                    case = dict(base, op="identify", C=sorted(Cs), T=sorted(T), topo=topo, q=q, qkind=kind)
                    out.append(case)
                    # chained: the estimand returned for Q[C] becomes the given c-factor of the next call
                    if len(Cs) >= 2 and evaluate and rng.random() < 0.5:
                        status, val = _call(case)
                        if status == "ok" and val is not None:
                            for C2 in _subsets_single_district(rng, bi, Cs, 2):
                                if len(C2) < len(Cs):
                                    out.append(dict(base, op="identify", C=sorted(C2), T=sorted(Cs),
                                                    topo=S.random_linear_extension(rng, V, di), q=val,
                                                    qkind="chain_" + kind))
        # c-factor routines
        for _ in range(3):
            H, q, kind = _q_of_some_set(rng, V, di, bi, dists)
            if H is None:
                continue
            topo = S.random_linear_extension(rng, V, di)
            htopo = [v for v in topo if v in H]
            hd = S.districts_of(bi, H)
            d = sorted(rng.choice(hd))
            rng.shuffle(d)
            out.append(dict(base, op="c_factor", district=d, H=sorted(H), topo=topo, q=q, qkind=kind))
            if q[0] in ("P", "PP"):
                out.append(dict(base, op="lemma1", district=d, H=sorted(H), topo=htopo, q=q, qkind=kind))
            out.append(dict(base, op="lemma4", district=d, H=sorted(H), topo=htopo, q=q, qkind=kind))
            vtx = rng.choice(htopo + [None]) if rng.random() < 0.9 else None
            out.append(dict(base, op="low_index", vertex=vtx, H=sorted(H), topo=htopo, q=q, qkind=kind))
            A = sorted(S.ancestors_in(di, H, G.rand_subset(rng, sorted(H), p=rng.choice([0.2, 0.5]))))
            out.append(dict(base, op="ancestral", A=A, H=sorted(H), topo=topo, q=q, qkind=kind))
    return out


def _q_of_some_set(rng, V, di, bi, dists):
    """(H, encoded expression intended to denote Q[H], kind)"""
    r = rng.random()
    joint = eP(sorted(V))
    if r < 0.45:                                     # an ancestral set of G: Q[H] = P(H)
        seed = G.rand_subset(rng, V, p=rng.choice([0.3, 0.6, 1.0]))
        H = S.ancestors_in(di, V, seed)
        if not H:
            return None, None, None
        k = rng.random()
        if k < 0.4:
            return H, eP(sorted(H)), "anc_prob"
        if k < 0.6:
            return H, eP(sorted(H), pop=1002), "anc_pprob"
        rest = sorted(set(V) - H)
        if rest:
            return H, eSum(rest, joint), "anc_sum"
        order = S.random_linear_extension(rng, V, di)
        fs = [eP([t], sorted(order[:i])) for i, t in enumerate(order)]
        return H, eProd(fs), "anc_prod" if len(fs) > 1 else "anc_prob"
    T = rng.choice(dists)
    cands = _district_q_candidates(rng, None, T, V, di, want={"prob", "pprob", "prod", "frac", "sum", "iprob", "ipprob"})
    kind, q = rng.choice(cands)
    if r < 0.7:
        return set(T), q, "dist_" + kind
    # an ancestral subset of the district (inside G_T): Q[A] = Sum_{T\A} Q[T]
    seed = G.rand_subset(rng, sorted(T), p=0.4)
    A = S.ancestors_in(di, T, seed)
    if not A:
        return None, None, None
    return A, eSum(sorted(set(T) - A), q), "distanc_" + kind


def _gen_malformed(rng, n):
    out = []
    exprs = ["one", "zero", ["Q", [pv(0)], [pv(1)]], eP([0, 1]), eP([0], [1], pop=1001),
             ["prod", eP([0], [1]), eP([1])], ["frac", eP([0, 1]), eP([1])], eSum([1], eP([0, 1]))]
    for _ in range(n):
        g = G.rand_graph(rng, 0, 5, acyclic=rng.random() < 0.9)
        V = G.all_nodes(g)
        base = {"g": g, "scm_seed": 0, "evaluate": False, "qkind": "malformed"}
        pool = V + [90, 91]
        op = rng.choice(OPS)
        q = rng.choice(exprs) if rng.random() < 0.5 or not V else rng.choice(
            [eP(sorted(V)), eSum(V[:1], eP(sorted(V))), ["frac", eP(sorted(V)), eP(V[:1])]])
        topo = list(V)
        rng.shuffle(topo)
        if rng.random() < 0.3 and topo:
            topo.pop(rng.randrange(len(topo)))
        if rng.random() < 0.2 and topo:
            topo.insert(rng.randrange(len(topo) + 1), rng.choice(topo))
        sub = lambda p: G.rand_subset(rng, pool, p=p)  # noqa: E731
        if op == "identify":
            T = sub(rng.choice([0.3, 0.6, 0.9]))
            Cs = [v for v in T if rng.random() < 0.6] + ([rng.choice(pool)] if rng.random() < 0.2 else [])
            out.append(dict(base, op=op, C=sorted(set(Cs)), T=sorted(set(T)), topo=topo, q=q))
        elif op in ("c_factor", "lemma1", "lemma4"):
            out.append(dict(base, op=op, district=sub(0.4), H=sorted(set(sub(0.7))), topo=topo, q=q))
        elif op == "low_index":
            out.append(dict(base, op=op, vertex=rng.choice(pool + [None]), H=sorted(set(topo)), topo=topo, q=q))
        else:
            out.append(dict(base, op=op, A=sorted(set(sub(0.4))), H=sorted(set(sub(0.7))), topo=topo, q=q))
    return out


def _corpus():
    import os
    out = []
    d = C.VERIF / "corpus" / "C17"
    if d.exists():
        for f in sorted(os.listdir(d)):
            if f.endswith(".json"):
                x = json.load(open(d / f))
                out += x if isinstance(x, list) else [x]
    return out


def cases(rng: random.Random, tier: str):
    out = _corpus()
    if tier == "quick":
        out += _gen_valid(rng, tier, 220, 5)
        out += _gen_malformed(rng, 500)
    else:
        out += _gen_valid(rng, tier, 1000, 5)
        out += _gen_valid(rng, tier, 300, 6)
        out += _gen_malformed(rng, 3000)
    return out


# ------------------------------------------------------------------------------------------ real code

def _call(case):
    """run the real function; returns ("ok", encoded expr | None) or ("err", exception class name)"""
    import networkx as nx
    from y0.algorithm import tian_id as tid

    V = G.V
    q = E.dec_expr(case["q"])
    op = case["op"]
    try:
        if op == "identify":
            r = tid.identify_district_variables(
                input_variables=frozenset(V(i) for i in case["C"]), input_district=frozenset(V(i) for i in case["T"]),
                district_probability=q, graph=G.to_nx_mixed(case["g"]), topo=[V(i) for i in case["topo"]])
        elif op == "c_factor":
            r = tid.compute_c_factor(district=[V(i) for i in case["district"]],
                                     subgraph_variables=frozenset(V(i) for i in case["H"]),
                                     subgraph_probability=q, graph_topo=[V(i) for i in case["topo"]])
        elif op == "lemma1":
            r = tid.compute_c_factor_conditioning_on_topological_predecessors(
                district=[V(i) for i in case["district"]], graph_probability=q, topo=[V(i) for i in case["topo"]])
        elif op == "lemma4":
            r = tid.compute_c_factor_marginalizing_over_topological_successors(
                district=[V(i) for i in case["district"]], graph_probability=q, topo=[V(i) for i in case["topo"]])
        elif op == "low_index":
            r = tid.compute_q_value_of_variables_with_low_topological_ordering_indices(
                vertex=None if case["vertex"] is None else V(case["vertex"]), graph_probability=q,
                topo=[V(i) for i in case["topo"]])
        elif op == "ancestral":
            r = tid.compute_ancestral_set_q_value(
                ancestral_set=frozenset(V(i) for i in case["A"]), subgraph_variables=frozenset(V(i) for i in case["H"]),
                subgraph_probability=q, graph_topo=[V(i) for i in case["topo"]])
        else:
            raise ValueError(op)
    except (KeyError, TypeError, ValueError, NotImplementedError, IndexError, ZeroDivisionError, AttributeError,
            nx.NetworkXError, RuntimeError, RecursionError) as e:
        return "err", type(e).__name__
    if r is None:
        return "ok", None
    return "ok", enc_shared(r)


def _py_out(status, val):
    if status == "err":
        return ["err"]
    if val is None:
        return ["ok", "none"]
    return ["ok", canon_expr(val)[0]]


# ------------------------------------------------------------------------------------------ oracle

@functools.lru_cache(maxsize=6)
def _model(gkey, seed, which):
    g = json.loads(gkey)
    V = G.all_nodes(g)
    rng = random.Random(seed * 31 + which)
    scm = S.Scm(V, g["di"], g["bi"], rng, cards=(2, 3) if len(V) <= 4 else (2, 2, 3))
    return scm, S.Evaluator(scm)


def _preconditions(case):
    """(valid?, target set, given set) according to the property statement"""
    g = case["g"]
    V = G.all_nodes(g)
    di = [tuple(e) for e in g["di"]]
    bi = [tuple(e) for e in g["bi"]]
    Vs = set(V)
    op = case["op"]
    if not V or not S.is_acyclic(V, di):
        return False, None, None
    topo = case["topo"]
    if op == "identify":
        T, Cs = set(case["T"]), set(case["C"])
        ok = (Cs and Cs <= T <= Vs and len(S.districts_of(bi, T)) == 1 and len(S.districts_of(bi, Cs)) == 1
              and len(topo) == len(set(topo)) and Vs <= set(topo) and S.is_topo([v for v in topo if v in Vs], V, di))
        return bool(ok), Cs, T
    H = set(case["H"])
    if not H or not H <= Vs:
        return False, None, None
    if op in ("c_factor", "ancestral"):
        ok_topo = len(topo) == len(set(topo)) and H <= set(topo) and \
            S.is_topo([v for v in topo if v in H], H, [e for e in di if e[0] in H and e[1] in H])
    else:
        ok_topo = S.is_topo(topo, H, [e for e in di if e[0] in H and e[1] in H])
    if not ok_topo:
        return False, None, None
    if op in ("c_factor", "lemma1", "lemma4"):
        d = set(case["district"])
        ok = len(d) == len(case["district"]) and frozenset(d) in set(S.districts_of(bi, H))
        return ok, d, H
    if op == "low_index":
        v = case["vertex"]
        if v is None:
            return True, set(), H
        if v not in H:
            return False, None, None
        return True, set(topo[: topo.index(v) + 1]), H
    if op == "ancestral":
        A = set(case["A"])
        ok = A <= H and S.ancestors_in(di, H, A) == A
        return ok, A, H
    return False, None, None


def _oracle(case, status, val):
    valid, target, given = _preconditions(case)
    info = {"valid": valid}
    if not valid:
        return None, info
    if case["op"] == "lemma1" and case["q"][0] not in ("P", "PP"):
        info["valid"] = False       # Lemma 1 (i) is stated for a probability of the whole set only
        return None, info
    if not case.get("evaluate", True):
        info["evaluated"] = False
        # graphs too large for the exact evaluator: only inputs whose expression denotes the c-factor by construction
        # of the generator (chain rule / Lemma 1 / Lemma 4 / truncated factorisation) are judged, and only for exceptions
        if status == "err" and case.get("q_by_construction"):
            return f"{case['op']}: raised {val} on an input that satisfies the preconditions", info
        return None, info
    gkey = json.dumps(case["g"], sort_keys=True)
    hyp = True
    for which in (0, 1):
        scm, ev = _model(gkey, case.get("scm_seed", 0), which)
        try:
            bad = ev.equals_full(case["q"], scm.q(given))
        except (S.Unsupported, S.DivisionByZero):
            bad = "unsupported"
        if bad is not None:
            hyp = False
            break
    info["hypothesis"] = hyp
    if not hyp:
        return None, info           # the given expression does not denote Q[T] / Q[H]: the property says nothing
    if status == "err":
        return f"{case['op']}: raised {val} although the input expression denotes the c-factor and the preconditions hold", info
    if val is None:
        info["result"] = "none"
        if case["op"] != "identify":
            return f"{case['op']} returned None", info
        return None, info
    info["result"] = "expr"
    for which in (0, 1):
        scm, ev = _model(gkey, case.get("scm_seed", 0), which)
        try:
            diff = ev.equals_full(val, scm.q(target))
        except S.DivisionByZero:
            diff = {"error": "division by zero while evaluating the returned expression on a positive model"}
        except S.Unsupported as e:
            diff = {"error": f"returned expression outside the observational fragment: {e}"}
        if diff is not None:
            diff["model"] = scm.describe() if len(scm.nodes) <= 4 else {"scm_seed": case.get("scm_seed", 0), "which": which}
            return (f"{case['op']}: the returned expression does not equal Q[{sorted(target)}] "
                    f"(given Q[{sorted(given)}]) on a compatible positive SCM: {json.dumps(diff, sort_keys=True)}"), info
    return None, info


def run_python(case):
    status, val = _call(case)
    out = _py_out(status, val)
    fail, info = _oracle(case, status, val)
    g = case["g"]
    nontrivial = bool(info.get("valid") and info.get("hypothesis"))
    tags = {"op": case["op"], "n_nodes": len(G.all_nodes(g)), "qkind": case["op"] + ":" + str(case.get("qkind")),
            "outcome": "err:" + str(val) if status == "err" else ("none" if val is None else "expr"),
            "valid": info.get("valid"), "hypothesis_holds": info.get("hypothesis"),
            "qtype": case["q"] if isinstance(case["q"], str) else case["q"][0]}
    if case["op"] == "identify" and info.get("valid"):
        di = [tuple(e) for e in g["di"]]
        A = S.ancestors_in(di, case["T"], case["C"])
        branch = "A=C" if A == set(case["C"]) else ("A=T" if A == set(case["T"]) else "recurse")
        tags["branch"] = branch + "/" + tags["qtype"]
        nontrivial = nontrivial and branch == "recurse"
    elif info.get("valid"):
        nontrivial = nontrivial and len(case["H"]) >= 2
    return {"out": out, "fail": fail, "nontrivial": nontrivial, "tags": tags}


# ------------------------------------------------------------------------------------------ model side

def request(case):
    g = case["g"]
    gs = C.graph_sexp(g["nodes"], g["di"], g["bi"])
    op = case["op"]
    q = case["q"]
    if op == "identify":
        return C.enc(["tian", op, gs, case["C"], case["T"], q, case["topo"]])
    if op == "c_factor":
        return C.enc(["tian", op, case["district"], case["H"], q, case["topo"]])
    if op in ("lemma1", "lemma4"):
        return C.enc(["tian", op, case["district"], q, case["topo"]])
    if op == "low_index":
        return C.enc(["tian", op, [] if case["vertex"] is None else [case["vertex"]], q, case["topo"]])
    if op == "ancestral":
        return C.enc(["tian", op, case["A"], case["H"], q, case["topo"]])
    raise ValueError(op)


DRIFT = {"n": 0}


def canon_model(case, rep):
    if rep[0] == "err":
        return ["err"]
    if rep[0] != "ok":
        return ["model-reply", rep]
    body = rep[1]
    if body == "none":
        return ["ok", "none"]
    m = canon_expr(body)[0]
    # structural comparison first; on a structural difference fall back to exact evaluation on a shared model
    status, val = _call(case)
    py = _py_out(status, val)
    if py == ["ok", m] or status != "ok" or val is None:
        return ["ok", m]
    try:
        gkey = json.dumps(case["g"], sort_keys=True)
        for which in (0, 1):
            scm, ev = _model(gkey, case.get("scm_seed", 0), which)
            if len(scm.nodes) > 6 or not ev.same(val, body):
                return ["ok", m]
    except (S.Unsupported, S.DivisionByZero, KeyError):
        return ["ok", m]
    DRIFT["n"] += 1
    return py


def shrink(case):
    for g in G.shrink_graph(case["g"]):
        live = set(G.all_nodes(g))
        c = dict(case)
        c["g"] = g
        for k in ("C", "T", "H", "A", "district", "topo"):
            if k in c:
                c[k] = [v for v in c[k] if v in live or v >= 90]
        if c.get("vertex") is not None and c["vertex"] not in live:
            continue
        yield c
    for k in ("C", "A"):
        if k in case:
            for i in range(len(case[k])):
                c = dict(case)
                c[k] = case[k][:i] + case[k][i + 1:]
                yield c


def finding_key(case, res):
    c = {k: case[k] for k in ("op", "g", "C", "T", "H", "A", "district", "vertex", "topo", "q") if k in case}
    return json.dumps(c, sort_keys=True)


MANIFEST = {
    "text": "TODO",
    "note": "TODO",
    "technique": "TODO",
}
