"""C17 — Tian-Pearl c-factor identification returns the true c-factor.

Correspondence: identify_district_variables, compute_c_factor (Lemma 1 / Lemma 4 dispatch on the type of the
probability expression, population-tagged variant included), compute_c_factor_conditioning_on_topological_predecessors,
compute_c_factor_marginalizing_over_topological_successors,
compute_q_value_of_variables_with_low_topological_ordering_indices, compute_ancestral_set_q_value:
real code vs the Lean model (Y0.Model.Tian), compared structurally after canonical encoding (products as multisets,
children / parents / ranges as sets), then - only if different - by exact evaluation on a shared random model.

Oracle (from the property statement, harness/oracles/tian_scm.py): an explicit random positive semi-Markovian SCM
compatible with the graph; Q[S] = the latents summed out of the truncated factorisation = the distribution of S under
do(V \\ S).  The input expression is first checked to denote Q[T] (resp. Q[H]) at every assignment; then the
returned expression, evaluated on the observational joint of the model, must equal Q[C] (resp. Q[district], Q[A],
Q[H^(i)]) at every assignment of all variables.  An exception on an input that satisfies the preconditions of the
property is a failure as well ("returns an expression ... or reports failure").
"""
from __future__ import annotations

import functools
import itertools as itt
import json
import random

from .. import common as C
from .. import enc_expr as E
from .. import gen_graph as G
from ..oracles import tian_scm as S

PROP = "C17"
RULE = ("STRUCTURED: districts grown to a prescribed IDENTIFY recursion depth 0-3 (4 in the thorough tier) with outside "
        "parents Z / descendants (and, in an appended stream, outside MEDIATORS t1 -> m -> t2 so that T is not a block of any topological order), every form of Q[T] (P(T|Z), P(T|Pa), PP, P[Z](T), P[V\\T](T), mixed, redundant "
        "children, Lemma-1 product, Lemma-4 ratios, top-level Fraction P(T,Z)/P(Z), Sum over descendants), all (<= 4/8 "
        "sampled) linear extensions; direct calls of the five c-factor routines on V, ancestral sets and the recursion's "
        "own (A, Q[A]) for every district, every expression form and orders chosen among all linear extensions (one "
        "putting a variable outside the district last); every single-world probability P_w(T u E | Z) over small graphs "
        "as candidate Q[T] (kept when it denotes Q[T]); the same with starred (+X) subscripts / parents / extra children and "
        "names outside the graph (stream starP, correspondence only).  RANDOM: ADMGs with 1-7 nodes (evaluated on SCMs up to 5 nodes in the quick tier, 6 in the thorough tier); every "
        "district T; every C subset of T inducing a single district (sampled when there are many); 1-3 random linear "
        "extensions (optionally with extra names the graph does not contain); Q[T] given as a Probability P(T|Z) / "
        "population-tagged PP(T|Z) when T is a block of some topological order (Lemma-1 branch), in interventional form "
        "P[Pa(T)](T), P[V\\T](T), PP[pi][Pa(T)](T), mixed P[Z1](T|Z2), with redundant children P(T,W|Z), as the Lemma-1 "
        "Product of conditionals of ANOTHER topological order, as the Lemma-4 Product/Fraction of sums of P(V), as "
        "Sum_{V\\T} P(V) when T is ancestral, and chained (the estimand returned for a sub-district T' used as the "
        "input of the next call); the five c-factor routines on ancestral sets H of G and ancestral subsets of "
        "districts with Q[H] as Probability / PP / Sum / Product; a malformed stream (C not inside T, T not in topo, T "
        "with several districts, C with several districts, One/Zero/QFactor as Q[T], empty sets, names outside the "
        "graph, duplicated or non-topological orders) for the error taxonomy.  A case is non-trivial when its "
        "preconditions hold, the input expression was confirmed to denote Q[T] on the random model and the run went "
        "through the recursive branch (A is neither C nor T) or through a c-factor routine on a set with >= 2 "
        "variables."
        " A SMALL-SCOPE stream (session 4): every labelled ADMG on 1-3 nodes (thorough: also 1 in 40 of those on 4 nodes) through the same per-graph case builder: every district T, its sub-districts C, every form of Q[T], and the c-factor routines.")
ASSUMPTIONS = [
    "all theorems are about the Lean model Y0.Model.Tian / Y0.Model.TianDsl (tian_id.py after fix 010d659); the tie to the Python is this run's correspondence sampling (structural comparison up to set / multiset order and x*1, x/1; evaluation fall-back on a shared model otherwise)",
    "model class of the theorems and of the oracle: discrete variables, positive rational parameters, independent root latents shared only across bidirected edges (Y0/Spec/Scm.lean); a population tag reads the same single-domain model; G acyclic (MG.Ranked) and well formed (MG.WF)",
    "a bare Probability given as Q[T] (Q[H]): tian_sound / cfactor_lemma1_sound / cfactor_sound (hypothesis 'denotes Q[T]' in ONE model) carry the syntactic hypothesis ProbShape, tian_sound_in the weaker ProbShapeIn (only the occurrences of the members of T are constrained: un-starred children, not parents, not intervened on; one common subscript list w; further children are parents / intervened on / not nodes; starred subscripts, starred parents and starred redundant children allowed) - Y0/Spec/TianSpec.lean. The Lemma-1 branch dispatches on the TYPE of the expression and reads only the parents and the children named in T, so a Probability that equals Q[T] only by numerical coincidence in one model is outside any such theorem. tian_sound_semantic / cfactor_sound_semantic / cfactor_lemma1_sound_semantic carry NO syntactic hypothesis: the hypothesis is 'q denotes Q[T] in EVERY positive model compatible with G' (at one fixed reading sigma' of the starred values, every sigma) and the conclusion holds in every such model; tian_semantic_shape proves that this hypothesis forces ProbShapeIn (separating models: independent fair coins and the same with one coin biased, Y0/Lemmas/TianSemSep.lean). 'Denotes' is relative to the single-world environment M.env G of Y0/Spec/Scm.lean, in which a conjunction across worlds has probability 0. cfactor_output_shape + tian_sound_ctftr_caller show that the only caller inside y0 (transport_district_intervening_on_parents) always supplies ProbShape. Sum / Product / Fraction inputs need one model and no shape",
    "starred variables / starred intervention subscripts (+X) and names that are not nodes of the graph inside a Probability given as Q[T] are covered by tian_sound_in / tian_sound_semantic; the harness compares the real code with the model on such inputs (stream starP) but its exact evaluator does not read starred values, so on them the tie is correspondence only",
    "completeness ('None only when Q[C] is not identifiable from Q[T]') is not part of the property and not claimed",
    "set iteration order (frozenset of Variables) only affects the order of factors in a Product and of parents in a population-tagged Probability; both are compared as multisets / sets; Python's sorted() ties are modelled by a stable insertion sort",
    "graphs whose exact evaluation would need more than ~2e5 latent x observed assignments (dense bidirected parts on 6-7 nodes) are checked by correspondence and for exceptions only, not by evaluation",
]
EXHAUSTIVE = {"quick": False, "thorough": False}
LEANCHECK_MODULES = ["Y0.Model.Tian", "Y0.Model.TianDsl", "Y0.Lemmas.QFactor", "Y0.Lemmas.TianIdentify", "Y0.Lemmas.TianTotal", "Y0.Lemmas.TianCallers", "Y0.Lemmas.TianSemSound", "Y0.Lemmas.TianSemSep", "Y0.Props.C17"]

OPS = ["identify", "c_factor", "lemma1", "lemma4", "low_index", "ancestral"]


# ------------------------------------------------------------------------------------------ encoding helpers

def pv(i):
    return E.plain(i)


def cv(i, dos):
    return ["v", i, "n", "0", [[z, "m"] for z in sorted(set(dos))]]


def eP(children, parents=(), pop=None, dos=()):
    """P(children | parents), optionally population-tagged, optionally in the world do(dos) (P[dos](...))"""
    ch = [cv(i, dos) for i in children]
    pa = [cv(i, dos) for i in parents]
    if pop is None:
        return ["P", ch, pa]
    return ["PP", pv(pop), ch, pa]


def eSum(ranges, e):
    ranges = sorted(set(ranges))
    return ["sum", [pv(i) for i in ranges], e] if ranges else e


def eProd(fs):
    fs = list(fs)
    return fs[0] if len(fs) == 1 else ["prod"] + fs


def enc_shared(e, memo=None):
    """enc_expr with sharing: the estimands are small DAGs, exponentially large as trees"""
    from y0.dsl import Fraction, One, PopulationProbability, Probability, Product, QFactor, Sum, Zero

    memo = {} if memo is None else memo
    k = id(e)
    if k in memo:
        return memo[k][1]
    if isinstance(e, PopulationProbability):
        r = ["PP", E.enc_var(e.population), [E.enc_var(v) for v in e.children], [E.enc_var(v) for v in e.parents]]
    elif isinstance(e, Probability):
        r = ["P", [E.enc_var(v) for v in e.children], [E.enc_var(v) for v in e.parents]]
    elif isinstance(e, Product):
        r = ["prod"] + [enc_shared(x, memo) for x in e.expressions]
    elif isinstance(e, Sum):
        r = ["sum", E.enc_vars_sorted(e.ranges), enc_shared(e.expression, memo)]
    elif isinstance(e, Fraction):
        r = ["frac", enc_shared(e.numerator, memo), enc_shared(e.denominator, memo)]
    elif isinstance(e, One):
        r = "one"
    elif isinstance(e, Zero):
        r = "zero"
    elif isinstance(e, QFactor):
        r = ["Q", E.enc_vars_sorted(e.domain), E.enc_vars_sorted(e.codomain)]
    else:
        raise TypeError(type(e))
    memo[k] = (e, r)
    return r


def _vkey(v):
    return (int(v[1]), str(v[2]), str(v[3]), [(int(a), str(b)) for a, b in v[4]])


def canon_expr(e, memo=None):
    """canonical, order-insensitive form (strings everywhere): children / parents / ranges sorted, product factors
    sorted by their canonical text.  Returns (canonical tree, canonical text)."""
    memo = {} if memo is None else memo
    k = id(e)
    if k in memo and memo[k][0] is e:
        return memo[k][1]
    if isinstance(e, str):
        r = (e, e)
    else:
        tag = e[0]
        sv = lambda vs: E.to_str_tree(sorted(vs, key=_vkey))  # noqa: E731
        if tag == "P":
            t = ["P", sv(e[1]), sv(e[2])]
            r = (t, json.dumps(t))
        elif tag == "PP":
            t = ["PP", E.to_str_tree(e[1]), sv(e[2]), sv(e[3])]
            r = (t, json.dumps(t))
        elif tag == "Q":
            t = ["Q", sv(e[1]), sv(e[2])]
            r = (t, json.dumps(t))
        elif tag == "prod":
            # products as multisets; nested products flattened, unit factors dropped (x * 1 = x)
            parts = []
            for x in e[1:]:
                c = canon_expr(x, memo)
                if c[0] == "one":
                    continue
                if isinstance(c[0], list) and c[0][0] == "prod":
                    parts += memo[("parts", id(c[0]))]
                else:
                    parts.append(c)
            parts.sort(key=lambda p: p[1])
            if not parts:
                r = ("one", "one")
            elif len(parts) == 1:
                r = parts[0]
            else:
                r = (["prod"] + [p[0] for p in parts], "[prod," + ",".join(p[1] for p in parts) + "]")
                memo[("parts", id(r[0]))] = parts
        elif tag == "sum":
            b = canon_expr(e[2], memo)
            rs = sv(e[1])
            r = (["sum", rs, b[0]], "[sum," + json.dumps(rs) + "," + b[1] + "]") if rs else b
        elif tag == "frac":
            n, d = canon_expr(e[1], memo), canon_expr(e[2], memo)
            r = n if d[0] == "one" else (["frac", n[0], d[0]], "[frac," + n[1] + "," + d[1] + "]")   # x / 1 = x
        else:
            raise ValueError(tag)
    memo[k] = (e, r)
    return r


# ------------------------------------------------------------------------------------------ generators

def _district_q_candidates(rng, g, T, V, di, want):
    """encoded expressions intended to denote Q[T] for a district T of G (the oracle re-checks each one)"""
    T = sorted(T)
    out = []
    desc = S.closure(set(T), lambda v: {w for (u, w) in di if u == v})
    anc = S.closure(set(T), lambda v: {u for (u, w) in di if w == v})
    block = not ((anc - set(T)) & desc)          # T is a block of some topological order
    Z = sorted(set(V) - desc)
    if "prob" in want and block:
        out.append(("prob", eP(T, Z)))
    if "pprob" in want and block:
        out.append(("pprob", eP(T, Z, pop=1001)))
    if "prob_pa" in want and block:
        out.append(("prob_pa", eP(T, sorted(anc - set(T)))))
    if "pprob_pa" in want and block:
        out.append(("pprob_pa", eP(T, sorted(anc - set(T)), pop=1004)))
    if "prob_redundant" in want and block and Z:
        # P(T, W | Z) with W part of Z denotes the same function; outside ProbShape (oracle only)
        W = [z for z in Z if rng.random() < 0.5] or Z[:1]
        out.append(("prob_redundant", eP(T + W, Z)))
    # the literal definition of the c-factor: the distribution of T under do(V \\ T) (or do(Pa(T) \\ T))
    pa_T = sorted({u for (u, w) in di if w in T and u not in T})
    if "iprob" in want and pa_T:
        out.append(("iprob", eP(T, dos=pa_T)))
    if "iprob_all" in want and set(V) - set(T):
        out.append(("iprob_all", eP(T, dos=sorted(set(V) - set(T)))))
    if "ipprob" in want and pa_T:
        out.append(("ipprob", eP(T, pop=1003, dos=pa_T)))
    if "iprob_mixed" in want and block and len(Z) >= 2:
        k = rng.randrange(1, len(Z))
        zs = list(Z)
        rng.shuffle(zs)
        out.append(("iprob_mixed", eP(T, sorted(zs[:k]), dos=sorted(zs[k:]))))
    # the same conditional written as a top-level Fraction / Sum (Lemma-3 / Lemma-4 dispatch of IDENTIFY)
    Dd = sorted(set(V) - set(T) - set(Z))
    if "fracform" in want and block:
        out.append(("fracform", ["frac", eP(T + Z), eP(Z) if Z else "one"]))
    if "frac_sum" in want and block and Dd:
        out.append(("frac_sum", ["frac", eSum(Dd, eP(sorted(V))), eP(Z) if Z else "one"]))
    if "sum_desc" in want and block and Dd:
        out.append(("sum_desc", eSum(Dd, eP(T + Dd, Z))))
    order = S.random_linear_extension(rng, V, di)
    pos = {v: i for i, v in enumerate(order)}
    if "prod" in want:
        fs = [eP([t], sorted(order[:pos[t]])) for t in sorted(T, key=lambda t: pos[t])]
        rng.shuffle(fs)
        out.append(("prod" if len(fs) > 1 else "prob1", eProd(fs)))
    if "pprod" in want:
        fs = [eP([t], sorted(order[:pos[t]]), pop=1000) for t in sorted(T, key=lambda t: pos[t])]
        out.append(("pprod" if len(fs) > 1 else "pprob1", eProd(fs)))
    if "frac" in want:
        joint = eP(sorted(V))
        fs = [["frac", eSum(order[pos[t] + 1:], joint), eSum(order[pos[t]:], joint)] for t in T]
        out.append(("frac", eProd(fs)))
    if "sum" in want and anc == set(T):
        rest = sorted(set(V) - set(T))
        if rest:
            out.append(("sum", eSum(rest, eP(sorted(V)))))
    return out


def _subsets_single_district(rng, bi, T, limit):
    T = sorted(T)
    subs = []
    n = len(T)
    masks = list(range(1, 1 << n))
    if len(masks) > 4 * limit:
        masks = rng.sample(masks, 4 * limit)
    for m in masks:
        Cs = [T[i] for i in range(n) if m >> i & 1]
        if len(S.districts_of(bi, Cs)) == 1:
            subs.append(Cs)
    if len(subs) > limit:
        subs = rng.sample(subs, limit)
    return subs


def _gen_valid(rng, tier, n_graphs, nmax_eval):
    out = []
    for _ in range(n_graphs):
        big = rng.random() < 0.25
        g = G.rand_graph(rng, 1, 7 if big else nmax_eval, acyclic=True,
                         pd=rng.choice([0.3, 0.5, 0.7]), pb=rng.choice([0.2, 0.35, 0.5, 0.7]))
        _cases_of_graph(rng, tier, g, nmax_eval, out)
    return out


def _gen_small_scope(rng, tier):
    """SMALL-SCOPE stream (session 4): EVERY labelled ADMG on 1-3 nodes (207 graphs; thorough: also 1 in 40 of the 34752 on 4 nodes)
    through the same per-graph case builder as the random stream: every district T, sub-districts C of it, every form of Q[T],
    the c-factor routines on a set H."""
    out = []
    for n in (1, 2, 3):
        for g in G.all_labelled_admgs(n):
            _cases_of_graph(rng, tier, g, 5, out)
    if tier == "thorough":
        for k, g in enumerate(G.all_labelled_admgs(4)):
            if k % 40 == 0:
                _cases_of_graph(rng, tier, g, 5, out)
    for c in out:
        c["stream"] = "smallscope"
    return out


def _cases_of_graph(rng, tier, g, nmax_eval, out):
    if True:
        V = G.all_nodes(g)
        di = [tuple(e) for e in g["di"]]
        bi = [tuple(e) for e in g["bi"]]
        # exact evaluation sums over every latent assignment (one latent per bidirected edge): bound the work
        evaluate = len(V) <= nmax_eval and (2 ** len(bi)) * (2.5 ** len(V)) <= 2e5
        base = {"g": g, "scm_seed": rng.randrange(1 << 30), "evaluate": evaluate, "q_by_construction": True}
        dists = S.districts_of(bi, V)
        for T in dists:
            cands = _district_q_candidates(rng, g, T, V, di, want=ALL_QFORMS)
            subs = _subsets_single_district(rng, bi, T, 6 if tier == "quick" else 14)
            for Cs in subs:
                kinds = cands if len(cands) <= 4 else rng.sample(cands, 4)
                for kind, q in kinds:
                    topo = S.random_linear_extension(rng, V, di)
                    if rng.random() < 0.15:
                        topo.insert(rng.randrange(len(topo) + 1), 95)
                    case = dict(base, op="identify", C=sorted(Cs), T=sorted(T), topo=topo, q=q, qkind=kind)
                    out.append(case)
                    # chained: the estimand returned for Q[C] becomes the given c-factor of the next call
                    if len(Cs) >= 2 and evaluate and rng.random() < 0.5 and _TIMEOUTS["n"] < 2:
                        status, val = _call(case)
                        if status == "ok" and val is not None:
                            for C2 in _subsets_single_district(rng, bi, Cs, 2):
                                if len(C2) < len(Cs):
                                    out.append(dict(base, op="identify", C=sorted(C2), T=sorted(Cs),
                                                    topo=S.random_linear_extension(rng, V, di), q=val,
                                                    qkind="chain_" + kind))
        # c-factor routines
        for _ in range(3):
            H, q, kind = _q_of_some_set(rng, V, di, bi, dists)
            if H is None:
                continue
            topo = S.random_linear_extension(rng, V, di)
            htopo = [v for v in topo if v in H]
            hd = S.districts_of(bi, H)
            d = sorted(rng.choice(hd))
            rng.shuffle(d)
            out.append(dict(base, op="c_factor", district=d, H=sorted(H), topo=topo, q=q, qkind=kind))
            if q[0] in ("P", "PP"):
                out.append(dict(base, op="lemma1", district=d, H=sorted(H), topo=htopo, q=q, qkind=kind))
            out.append(dict(base, op="lemma4", district=d, H=sorted(H), topo=htopo, q=q, qkind=kind))
            vtx = rng.choice(htopo + [None]) if rng.random() < 0.9 else None
            out.append(dict(base, op="low_index", vertex=vtx, H=sorted(H), topo=htopo, q=q, qkind=kind))
            A = sorted(S.ancestors_in(di, H, G.rand_subset(rng, sorted(H), p=rng.choice([0.2, 0.5]))))
            out.append(dict(base, op="ancestral", A=A, H=sorted(H), topo=topo, q=q, qkind=kind))


def _q_of_some_set(rng, V, di, bi, dists):
    """(H, encoded expression intended to denote Q[H], kind)"""
    r = rng.random()
    joint = eP(sorted(V))
    if r < 0.45:                                     # an ancestral set of G: Q[H] = P(H)
        seed = G.rand_subset(rng, V, p=rng.choice([0.3, 0.6, 1.0]))
        H = S.ancestors_in(di, V, seed)
        if not H:
            return None, None, None
        k = rng.random()
        if k < 0.4:
            return H, eP(sorted(H)), "anc_prob"
        if k < 0.6:
            return H, eP(sorted(H), pop=1002), "anc_pprob"
        rest = sorted(set(V) - H)
        if rest:
            return H, eSum(rest, joint), "anc_sum"
        order = S.random_linear_extension(rng, V, di)
        fs = [eP([t], sorted(order[:i])) for i, t in enumerate(order)]
        return H, eProd(fs), "anc_prod" if len(fs) > 1 else "anc_prob"
    T = rng.choice(dists)
    cands = _district_q_candidates(rng, None, T, V, di, want={"prob", "pprob", "prod", "frac", "sum", "iprob", "ipprob"})
    kind, q = rng.choice(cands)
    if r < 0.7:
        return set(T), q, "dist_" + kind
    # an ancestral subset of the district (inside G_T): Q[A] = Sum_{T\A} Q[T]
    seed = G.rand_subset(rng, sorted(T), p=0.4)
    A = S.ancestors_in(di, T, seed)
    if not A:
        return None, None, None
    return A, eSum(sorted(set(T) - A), q), "distanc_" + kind


# ------------------------------------------------------------------------------------------ structured generators

ALL_QFORMS = {"prob", "pprob", "prob_pa", "pprob_pa", "prob_redundant", "prod", "pprod", "frac", "sum", "iprob",
              "iprob_all", "ipprob", "iprob_mixed", "fracform", "frac_sum", "sum_desc"}


def identify_trace(di, bi, Cs, T):
    """Tian-Pearl IDENTIFY on SETS only (Figure 7 of the paper, no expressions): the list of recursive steps
    (T, A, T') and the verdict 'ok' (A = C reached) / 'fail' (A = T reached).  Used to steer the generators and to tag
    the cases by recursion depth; never used as an oracle."""
    Cs, T = set(Cs), set(T)
    steps = []
    while True:
        A = S.ancestors_in(di, T, Cs)
        if A == Cs:
            return steps, "ok"
        if A == T:
            return steps, "fail"
        Tp = next(set(d) for d in S.districts_of(bi, A) if Cs <= d)
        steps.append((sorted(T), sorted(A), sorted(Tp)))
        T = Tp


def _orders(rng, V, di, k, must=None):
    """up to k linear extensions of (V, di): all of them when there are at most k; `must` (a predicate on orders)
    is honoured by at least one of the chosen orders whenever some linear extension satisfies it"""
    alle = S.all_linear_extensions(V, di, limit=240)
    if len(alle) <= k:
        return alle
    pick = rng.sample(alle, k)
    if must is not None and not any(must(o) for o in pick):
        good = [o for o in alle if must(o)]
        if good:
            pick[-1] = rng.choice(good)
    return pick


def _grow_district(rng, depth, base, csize=None):
    """a single-district T (local ids 0..k-1) and C inside it whose IDENTIFY trace has exactly `depth` recursive
    steps: every level adds a connector p (ancestor of C whose only bidirected edge goes to y) and a non-ancestor y
    (removed by A = An(C)), so that A = T' u {p} and the district of C in G_A is the previous T'.
    base: 'AeqC' (T0 = C u {non-ancestor}), 'TeqC' (T0 = C), 'fail' (T0 = C u {a0}, a0 -> C, a0 <-> C: A = T0)."""
    csize = rng.choice([1, 1, 2, 3]) if csize is None else csize
    Cs = list(range(csize))
    di, bi = set(), set()
    for i in range(1, csize):
        bi.add((rng.randrange(i), i))
    for i in range(csize):
        for j in range(i + 1, csize):
            if rng.random() < 0.4:
                di.add((i, j))
    T = list(Cs)
    n = csize
    if base == "AeqC":
        y = n
        n += 1
        bi.add((rng.choice(Cs), y))
        for c in Cs:
            if rng.random() < 0.5:
                di.add((c, y))
        T.append(y)
    elif base == "fail":
        a = n
        n += 1
        bi.add((rng.choice(Cs), a))
        di.add((a, rng.choice(Cs)))
        T.append(a)
    for _ in range(depth):
        anc = S.ancestors_in(di, T, Cs)
        nonanc = [v for v in T if v not in anc]
        p, y = n, n + 1
        n += 2
        di.add((p, rng.choice(sorted(anc))))
        for v in nonanc:
            di.add((v, p))
        bi.add((p, y))
        bi.add((y, rng.choice(T)))
        for v in T + [p]:
            if rng.random() < 0.3:
                di.add((v, y))
        T += [p, y]
    return T, sorted(di), sorted(bi), Cs


def _decorate(rng, T, di, bi, Cs, depth, verdict, tries):
    """random extra edges inside T that keep the graph acyclic and the IDENTIFY trace (depth, verdict) unchanged"""
    di, bi = list(di), list(bi)
    for _ in range(tries if len(T) >= 2 else 0):
        a, b = rng.sample(T, 2)
        if rng.random() < 0.6:
            if (a, b) in di or (b, a) in di:
                continue
            cand_di, cand_bi = di + [(a, b)], bi
        else:
            if (a, b) in bi or (b, a) in bi:
                continue
            cand_di, cand_bi = di, bi + [(a, b)]
        if not S.is_acyclic(T, cand_di):
            continue
        st, vd = identify_trace(cand_di, cand_bi, Cs, T)
        if len(st) == depth and vd == verdict:
            di, bi = cand_di, cand_bi
    return di, bi


def _eval_cost(V, di, bi):
    """work of the exact oracle on an all-binary model: per district 2^(members + parents + latents) * members"""
    tot = 0
    for d in S.districts_of(bi, V):
        W = set(d) | {u for (u, w) in di if w in d}
        lat = sum(1 for e in bi if set(e) <= set(d))
        tot += (2 ** (len(W) + lat)) * len(d)
    return tot + 4 ** len(V)


def _structured_graph(rng, depth, nz, nd, nm=0):
    """(g, T, C, depth, verdict) in integer space: a district T grown to the wanted recursion depth, nz outside
    parents Z (no bidirected edge into T, so T stays a district of G) and nd descendants outside T"""
    for _ in range(50):
        base = rng.choice(["AeqC", "AeqC", "TeqC", "fail"]) if depth else rng.choice(["AeqC", "TeqC", "fail"])
        # keep the whole graph within 8 nodes (all-binary exact evaluation): |T| = |C| + (0|1) + 2 * depth
        csize = {0: None, 1: None, 2: rng.choice([1, 1, 2])}.get(depth, 1)
        T, di, bi, Cs = _grow_district(rng, depth, base, csize)
        room = 8 - len(T)
        if room < 0:
            continue
        nz, nd = min(nz, room), min(nd, max(0, room - nz))
        if not S.is_acyclic(T, di) or len(S.districts_of(bi, T)) != 1:
            continue
        st, verdict = identify_trace(di, bi, Cs, T)
        if len(st) != depth:
            continue
        di, bi = _decorate(rng, T, di, bi, Cs, depth, verdict, tries=rng.choice([0, 2, 5]))
        n = len(T)
        Z = list(range(n, n + nz))
        D = list(range(n + nz, n + nz + nd))
        di = list(di)
        bi = list(bi)
        for z in Z:
            kids = rng.sample(T, min(len(T), rng.choice([1, 1, 2, 3])))
            if rng.random() < 0.7:                    # make the outside parent matter for C
                kids.append(rng.choice(sorted(S.ancestors_in(di, T, Cs))))
            di += [(z, k) for k in set(kids)]
        if len(Z) == 2:
            r = rng.random()
            if r < 0.3:
                di.append((Z[0], Z[1]))
            elif r < 0.5:
                bi.append((Z[0], Z[1]))
        for d in D:
            di.append((rng.choice(T), d))
            if Z and rng.random() < 0.4:
                di.append((rng.choice(Z), d))
        # outside MEDIATORS (gap review round 5): t1 -> m -> t2 with m outside T, so that T is not a block of any
        # topological order (G_T and the IDENTIFY trace are unchanged; only the expressions that denote Q[T] change)
        Mds = []
        for _ in range(min(nm, max(0, room - nz - nd))):
            m = n + nz + nd + len(Mds)
            pairs = [(a, b) for a in T for b in T if a != b
                     and S.is_acyclic(T + Z + D + Mds + [m], di + [(a, m), (m, b)])]
            if not pairs:
                break
            a, b = rng.choice(pairs)
            di += [(a, m), (m, b)]
            Mds.append(m)
        D = D + Mds
        nd = len(D)
        # names: Z first (lowest integers = alphabetically first) half of the time, otherwise any injection
        total = n + nz + nd
        if rng.random() < 0.5:
            lowz = list(range(nz))
            rest = list(range(nz, total))
            rng.shuffle(rest)
            ren = dict(zip(Z, lowz))
            ren.update(zip(T + D, rest))
        else:
            perm = list(range(total))
            rng.shuffle(perm)
            ren = dict(zip(T + Z + D, perm))
        di2 = [[ren[a], ren[b]] for a, b in di]
        bi2 = [[ren[a], ren[b]] if rng.random() < 0.5 else [ren[b], ren[a]] for a, b in bi]
        rng.shuffle(di2)
        rng.shuffle(bi2)
        nodes = [ren[v] for v in T + Z + D]
        rng.shuffle(nodes)
        g = {"nodes": nodes, "di": di2, "bi": bi2}
        return g, sorted(ren[v] for v in T), sorted(ren[v] for v in Cs), depth, verdict
    return None


def _gen_recursion(rng, tier, plan, nm=0):
    """IDENTIFY cases with a prescribed recursion depth, every form of Q[T], several (all, when few) topological
    orders.  plan: list of (depth, number of graphs)."""
    out = []
    for depth, count in plan:
        for _ in range(count):
            nz = rng.choice([1, 1, 1, 2, 0])
            nd = rng.choice([0, 1])
            if depth >= 3:
                nz, nd = rng.choice([0, 1]), 0
            sg = _structured_graph(rng, depth, nz, nd, nm) if nm else _structured_graph(rng, depth, nz, nd)
            if sg is None:
                continue
            g, T, Cs0, _, _ = sg
            V = G.all_nodes(g)
            di = [tuple(e) for e in g["di"]]
            bi = [tuple(e) for e in g["bi"]]
            binary = len(V) >= 6
            evaluate = _eval_cost(V, di, bi) <= (3e5 if tier == "quick" else 2e6)
            base = {"g": g, "scm_seed": rng.randrange(1 << 30), "evaluate": evaluate, "q_by_construction": True}
            if binary:
                base["cards"] = [2]
            # the designed C plus neighbours: other single-district subsets of T that also recurse
            subs = [Cs0]
            others = [c for c in _subsets_single_district(rng, bi, T, 12)
                      if sorted(c) != Cs0 and len(identify_trace(di, bi, c, T)[0]) >= 1]
            rng.shuffle(others)
            subs += [sorted(c) for c in others[:2 if depth < 3 else 1]]
            cands = _district_q_candidates(rng, g, T, V, di, want=ALL_QFORMS)
            for Cs in subs:
                for kind, q in cands:
                    many = kind in ("prob", "prob_pa", "pprob", "iprob", "iprob_mixed")
                    k = (4 if many else 1) if tier == "quick" else (8 if many else 3)
                    if depth >= 2 and q[0] not in ("P", "PP") and (len(V) > 7 or rng.random() < (0.5 if depth == 2 else 0.8)):
                        continue        # nested Lemma-4 ratios: the estimand doubles in size with every level
                    for topo in _orders(rng, V, di, k):
                        topo = list(topo)
                        if rng.random() < 0.1:
                            topo.insert(rng.randrange(len(topo) + 1), 95)
                        out.append(dict(base, op="identify", C=Cs, T=T, topo=topo, q=q, qkind=("Sm_" if nm else "S_") + kind))
            # the intermediate objects of the recursion, called directly: (A, Q[A]) -> Q[T'] for every district of G_A
            steps, _ = identify_trace(di, bi, Cs0, T)
            for (Tk, Ak, Tpk) in steps[:1]:
                forms = _subset_q_candidates(rng, T, Ak, cands)
                if tier == "quick" and len(forms) > 6:
                    forms = rng.sample(forms, 6)
                out += _cfactor_cases(rng, tier, base, V, di, bi, set(Ak), forms, "S_anc_of_T")
    return out


def _subset_q_candidates(rng, T, A, cands):
    """expressions for Q[A], A an ancestral subset of the district T, from the candidates for Q[T]:
    Sum_{T\\A} Q[T] (Lemma 3) for every form, and the marginal probability with the same conditioning set /
    intervention for the bare probabilities (what IDENTIFY builds itself)"""
    out = []
    rest = sorted(set(T) - set(A))
    for kind, q in cands:
        if kind == "prob_redundant":
            continue
        out.append(("sumof_" + kind, eSum(rest, q)))
        if q[0] in ("P", "PP"):
            k = 1 if q[0] == "P" else 2
            ch = [v for v in q[k] if int(v[1]) in set(A)]
            out.append(("marg_" + kind, q[:k] + [ch, q[k + 1]]))
    return out


def _cfactor_cases(rng, tier, base, V, di, bi, H, qforms, label):
    """direct calls of the five c-factor routines on (H, Q[H]) for every form, every district of G_H, several
    orders (one of them, when it exists, putting a variable outside the requested district last)"""
    out = []
    H = set(H)
    hd = [sorted(d) for d in S.districts_of(bi, H)]
    hdi = [e for e in di if e[0] in H and e[1] in H]
    k = 3 if tier == "quick" else 6
    for kind, q in qforms:
        tag = label + "_" + kind
        for d in hd:
            last_outside = lambda o, d=d: [v for v in o if v in H][-1] not in d  # noqa: E731
            for topo in _orders(rng, V, di, k, must=last_outside):
                topo = list(topo)
                htopo = [v for v in topo if v in H]
                dd = list(d)
                rng.shuffle(dd)
                if rng.random() < 0.1:
                    topo.insert(rng.randrange(len(topo) + 1), 96)
                out.append(dict(base, op="c_factor", district=dd, H=sorted(H), topo=topo, q=q, qkind=tag))
                if rng.random() < 0.5:
                    out.append(dict(base, op="lemma4", district=dd, H=sorted(H), topo=htopo, q=q, qkind=tag))
                if q[0] in ("P", "PP") and rng.random() < 0.5:
                    out.append(dict(base, op="lemma1", district=dd, H=sorted(H), topo=htopo, q=q, qkind=tag))
        topo = S.random_linear_extension(rng, V, di)
        htopo = [v for v in topo if v in H]
        for vtx in rng.sample(htopo + [None], min(2, len(htopo) + 1)):
            out.append(dict(base, op="low_index", vertex=vtx, H=sorted(H), topo=htopo, q=q, qkind=tag))
        A = sorted(S.ancestors_in(hdi, H, G.rand_subset(rng, sorted(H), p=rng.choice([0.3, 0.6]))))
        out.append(dict(base, op="ancestral", A=A, H=sorted(H), topo=topo, q=q, qkind=tag))
    return out


def _whole_graph_qforms(rng, V, di, H):
    """expressions for Q[H], H an ancestral set of G: P(H), PP(H), Sum_{V\\H} P(V), Sum of the chain-rule product,
    the chain-rule product of H itself, P(H)/1 and the Lemma-4 style product of ratios"""
    H = set(H)
    hs = sorted(H)
    rest = sorted(set(V) - H)
    joint = eP(sorted(V))
    order = S.random_linear_extension(rng, V, di)
    horder = [v for v in order if v in H]
    chain_v = eProd([eP([t], sorted(order[:i])) for i, t in enumerate(order)])
    chain_h = eProd([eP([t], sorted(horder[:i])) for i, t in enumerate(horder)])
    out = [("prob", eP(hs)), ("pprob", eP(hs, pop=1002)), ("frac1", ["frac", eP(hs), "one"])]
    if rest:
        out.append(("sum", eSum(rest, joint)))
        out.append(("sumchain", eSum(rest, chain_v)))
    if len(horder) > 1:
        out.append(("chain", chain_h))
        ph = eP(hs)
        out.append(("ratios", eProd([["frac", eSum(horder[i + 1:], ph), eSum(horder[i:], ph)] if i else
                                      eSum(horder[1:], ph) for i in range(len(horder))])))
    return out


def _gen_cfactor(rng, tier, n_graphs):
    """direct calls of the c-factor routines: graphs with >= 2 districts (a district chain broken by directed-only
    nodes), H = V and every ancestral set with >= 2 districts, every expression form, every district, orders chosen
    among ALL linear extensions"""
    out = []
    made = 0
    while made < n_graphs:
        n = rng.choice([3, 4, 4, 5, 5])
        g = G.rand_graph(rng, n, n, acyclic=True, pd=rng.choice([0.3, 0.5, 0.7]), pb=rng.choice([0.15, 0.25, 0.4]))
        V = G.all_nodes(g)
        di = [tuple(e) for e in g["di"]]
        bi = [tuple(e) for e in g["bi"]]
        if len(V) < 3 or len(S.districts_of(bi, V)) < 2 or _eval_cost(V, di, bi) > 3e5:
            continue
        made += 1
        base = {"g": g, "scm_seed": rng.randrange(1 << 30), "evaluate": True, "q_by_construction": True}
        ancs = {frozenset(S.ancestors_in(di, V, G.rand_subset(rng, V, p=0.5))) for _ in range(6)}
        ancs = [set(a) for a in ancs if len(a) >= 2 and len(S.districts_of(bi, a)) >= 2 and set(a) != set(V)]
        rng.shuffle(ancs)
        for H in [set(V)] + ancs[:1]:
            forms = _whole_graph_qforms(rng, V, di, H)
            if tier == "quick" and len(forms) > 5:
                forms = forms[:1] + rng.sample(forms[1:], 4)
            out += _cfactor_cases(rng, tier, base, V, di, bi, H, forms, "S_anc")
    return out


def _gen_semantic_probs(rng, tier, n_graphs):
    """EVERY single-world probability expression over a small graph as candidate for Q[T]: P_w(T u E | Z) for every
    disjoint choice of intervened variables w and conditioning variables Z outside T, plus redundant children E taken
    from Z u w.  The oracle's hypothesis check keeps exactly those that DENOTE Q[T] on the random models (whatever
    their syntactic shape); IDENTIFY must then be right on them.  This probes the semantic reading of the property
    ("an expression for its c-factor") beyond the syntactic hypothesis ProbShape of the Lean theorem."""
    out = []
    made = 0
    while made < n_graphs:
        if rng.random() < 0.5:
            sg = _structured_graph(rng, rng.choice([0, 1, 1]), rng.choice([1, 2]), rng.choice([0, 1]))
            if sg is None:
                continue
            g, T, _, _, _ = sg
            Ts = [T]
        else:
            n = rng.choice([3, 4, 4, 5])
            g = G.rand_graph(rng, n, n, acyclic=True, pd=rng.choice([0.3, 0.5]), pb=rng.choice([0.2, 0.35, 0.5]))
            Ts = None
        V = G.all_nodes(g)
        di = [tuple(e) for e in g["di"]]
        bi = [tuple(e) for e in g["bi"]]
        if len(V) < 3 or len(V) > 6 or _eval_cost(V, di, bi) > 2e5:
            continue
        if Ts is None:
            Ts = [sorted(d) for d in S.districts_of(bi, V) if 2 <= len(d) < len(V)][:1]
            if not Ts:
                continue
        made += 1
        base = {"g": g, "scm_seed": rng.randrange(1 << 30), "evaluate": True}
        if len(V) >= 6:
            base["cards"] = [2]
        for T in Ts:
            rest = [v for v in V if v not in T]
            subs = [sorted(c) for c in _subsets_single_district(rng, bi, T, 6)]
            rec = [c for c in subs if len(identify_trace(di, bi, c, T)[0]) >= 1]
            Cs = (rec[:2] + [c for c in subs if c not in rec][:1]) or subs[:1]
            # every assignment of the outside variables to {intervened, conditioned on, absent}
            roles = list(itt.product("wz-", repeat=len(rest)))
            if len(roles) > 27:
                roles = rng.sample(roles, 27)
            for role in roles:
                w = [v for v, r in zip(rest, role) if r == "w"]
                Z = [v for v, r in zip(rest, role) if r == "z"]
                extras = [v for v in w + Z if rng.random() < 0.25]
                for pop in (None, 1005) if rng.random() < 0.3 else (None,):
                    q = eP(sorted(T) + extras, Z, pop=pop, dos=w)
                    kind = f"semP_w{len(w)}_z{len(Z)}_x{min(len(extras), 1)}"
                    for Cs1 in Cs:
                        topo = S.random_linear_extension(rng, V, di)
                        out.append(dict(base, op="identify", C=Cs1, T=sorted(T), topo=topo, q=q, qkind=kind))
                    if rng.random() < 0.3:
                        topo = S.random_linear_extension(rng, V, di)
                        out.append(dict(base, op="c_factor", district=sorted(T), H=sorted(T), topo=topo, q=q, qkind=kind))
    return out


def _gen_starred(rng, tier, n_graphs):
    """Correspondence-only stream for the inputs that tian_sound_in / tian_sound_semantic admit beyond ProbShape:
    single-world probabilities P_w(T u E | Z) whose subscripts / parents / extra children are starred (+X) or are not
    nodes of the graph (names 90-92), occasionally with a starred member of T (outside every shape).  The exact
    evaluator does not read starred values, so these cases compare the real code with the Lean model only."""
    out = []
    made = 0
    while made < n_graphs:
        sg = _structured_graph(rng, rng.choice([0, 1, 1, 2]), rng.choice([1, 2]), rng.choice([0, 1]))
        if sg is None:
            continue
        g, T, _, _, _ = sg
        V = G.all_nodes(g)
        di = [tuple(e) for e in g["di"]]
        bi = [tuple(e) for e in g["bi"]]
        made += 1
        base = {"g": g, "scm_seed": 0, "evaluate": False}
        rest = [v for v in V if v not in T]
        subs = [sorted(c) for c in _subsets_single_district(rng, bi, T, 6)]
        rec = [c for c in subs if len(identify_trace(di, bi, c, T)[0]) >= 1]
        Cs = (rec[:2] + [c for c in subs if c not in rec][:1]) or subs[:1]
        for _ in range(3):
            role = [rng.choice("wz-") for _ in rest]
            w = [v for v, r in zip(rest, role) if r == "w"] + ([90] if rng.random() < 0.4 else [])
            Z = [v for v, r in zip(rest, role) if r == "z"] + ([91] if rng.random() < 0.5 else [])
            starw = {v for v in w if rng.random() < 0.5}
            starz = {v for v in Z if rng.random() < 0.5}
            ivs = sorted(([v, "p" if v in starw else "m"] for v in set(w)), key=lambda p: (p[0], p[1] == "p"))

            def var(i, star, ivs=ivs):
                return ["v", i, star, "0", ivs]

            pa = [var(v, "p" if v in starz else rng.choice(["n", "n", "m"])) for v in Z]
            ch = [var(t, rng.choice(["n", "n", "n", "m"])) for t in sorted(T)]
            ch += [var(v, "p" if v in starz else "n") for v in Z if rng.random() < 0.25]
            if rng.random() < 0.3:
                ch.append(var(92, rng.choice(["n", "p"])))
            kind = "starP"
            if rng.random() < 0.1:
                k = rng.randrange(len(ch))
                ch[k] = var(ch[k][1], "p")
                kind = "starP_T"
            rng.shuffle(ch)
            q = ["P", ch, pa] if rng.random() < 0.75 else ["PP", pv(1005), ch, pa]
            for Cs1 in Cs:
                topo = S.random_linear_extension(rng, V, di)
                out.append(dict(base, op="identify", C=Cs1, T=sorted(T), topo=topo, q=q, qkind=kind))
            if rng.random() < 0.3:
                topo = S.random_linear_extension(rng, V, di)
                out.append(dict(base, op="c_factor", district=sorted(T), H=sorted(T), topo=topo, q=q, qkind=kind))
    return out


def _gen_malformed(rng, n):
    out = []
    exprs = ["one", "zero", ["Q", [pv(0)], [pv(1)]], eP([0, 1]), eP([0], [1], pop=1001),
             ["prod", eP([0], [1]), eP([1])], ["frac", eP([0, 1]), eP([1])], eSum([1], eP([0, 1]))]
    for _ in range(n):
        g = G.rand_graph(rng, 0, 5, acyclic=rng.random() < 0.9)
        V = G.all_nodes(g)
        base = {"g": g, "scm_seed": 0, "evaluate": False, "qkind": "malformed"}
        pool = V + [90, 91]
        op = rng.choice(OPS)
        q = rng.choice(exprs) if rng.random() < 0.5 or not V else rng.choice(
            [eP(sorted(V)), eSum(V[:1], eP(sorted(V))), ["frac", eP(sorted(V)), eP(V[:1])]])
        topo = list(V)
        rng.shuffle(topo)
        if rng.random() < 0.3 and topo:
            topo.pop(rng.randrange(len(topo)))
        if rng.random() < 0.2 and topo:
            topo.insert(rng.randrange(len(topo) + 1), rng.choice(topo))
        sub = lambda p: G.rand_subset(rng, pool, p=p)  # noqa: E731
        if op == "identify":
            T = sub(rng.choice([0.3, 0.6, 0.9]))
            Cs = [v for v in T if rng.random() < 0.6] + ([rng.choice(pool)] if rng.random() < 0.2 else [])
            out.append(dict(base, op=op, C=sorted(set(Cs)), T=sorted(set(T)), topo=topo, q=q))
        elif op in ("c_factor", "lemma1", "lemma4"):
            out.append(dict(base, op=op, district=sub(0.4), H=sorted(set(sub(0.7))), topo=topo, q=q))
        elif op == "low_index":
            out.append(dict(base, op=op, vertex=rng.choice(pool + [None]), H=sorted(set(topo)), topo=topo, q=q))
        else:
            out.append(dict(base, op=op, A=sorted(set(sub(0.4))), H=sorted(set(sub(0.7))), topo=topo, q=q))
    return out


def _corpus():
    import os
    out = []
    d = C.VERIF / "corpus" / "C17"
    if d.exists():
        for f in sorted(os.listdir(d)):
            if f.endswith(".json"):
                x = json.load(open(d / f))
                out += x if isinstance(x, list) else [x]
    return out


def cases(rng: random.Random, tier: str):
    out = _corpus()
    if tier == "quick":
        out += _gen_recursion(rng, tier, [(0, 6), (1, 34), (2, 22), (3, 14)])
        out += _gen_cfactor(rng, tier, 45)
        out += _gen_semantic_probs(rng, tier, 40)
        out += _gen_valid(rng, tier, 110, 5)
        out += _gen_malformed(rng, 400)
        out += _gen_starred(rng, tier, 25)
        out += _gen_recursion(rng, tier, [(1, 14), (2, 8)], nm=1)      # district with an outside mediator (appended)
    else:
        out += _gen_recursion(rng, tier, [(0, 20), (1, 120), (2, 80), (3, 30), (4, 6)])
        out += _gen_cfactor(rng, tier, 200)
        out += _gen_semantic_probs(rng, tier, 200)
        out += _gen_valid(rng, tier, 1000, 5)
        out += _gen_valid(rng, tier, 300, 6)
        out += _gen_malformed(rng, 3000)
        out += _gen_starred(rng, tier, 150)
        out += _gen_recursion(rng, tier, [(1, 80), (2, 50), (3, 12)], nm=1)
        out += _gen_recursion(rng, tier, [(1, 30), (2, 20)], nm=2)
    out += _gen_small_scope(rng, tier)      # appended: the earlier cases of a seed are unchanged
    return out


# ------------------------------------------------------------------------------------------ real code

class _CallTimeout(BaseException):
    pass


def _on_alarm(signum, frame):
    raise _CallTimeout()


_TIMEOUTS = {"n": 0}


def _call(case):
    """the real function under a CPU-time guard (ITIMER_VIRTUAL: user CPU time of this process, independent of the
    load of the machine).  The slowest valid case of the quick stream needs 0.2 s; a run that burns 5 s (a runaway
    recursion: every level of IDENTIFY doubles the work of sorting the nested ratios) is reported as an exception.
    After two such runs in one process the guard drops to 0.5 s, chained generation and shrinking stop, so that a
    systematic hang still ends in a couple of minutes with a VIOLATION (never reached on a tree without such a hang)."""
    import signal

    limit = 5.0 if _TIMEOUTS["n"] < 2 else 0.5
    old = signal.signal(signal.SIGVTALRM, _on_alarm)
    signal.setitimer(signal.ITIMER_VIRTUAL, limit)
    try:
        return _call_unguarded(case)
    except _CallTimeout:
        _TIMEOUTS["n"] += 1
        return "err", f"Timeout: no result after {limit} s of CPU time"
    finally:
        signal.setitimer(signal.ITIMER_VIRTUAL, 0)
        signal.signal(signal.SIGVTALRM, old)


def _call_unguarded(case):
    """run the real function; returns ("ok", encoded expr | None) or ("err", exception class name)"""
    import networkx as nx
    from y0.algorithm import tian_id as tid

    V = G.V
    q = E.dec_expr(case["q"])
    op = case["op"]
    try:
        if op == "identify":
            r = tid.identify_district_variables(
                input_variables=frozenset(V(i) for i in case["C"]), input_district=frozenset(V(i) for i in case["T"]),
                district_probability=q, graph=G.to_nx_mixed(case["g"]), topo=[V(i) for i in case["topo"]])
        elif op == "c_factor":
            r = tid.compute_c_factor(district=[V(i) for i in case["district"]],
                                     subgraph_variables=frozenset(V(i) for i in case["H"]),
                                     subgraph_probability=q, graph_topo=[V(i) for i in case["topo"]])
        elif op == "lemma1":
            r = tid.compute_c_factor_conditioning_on_topological_predecessors(
                district=[V(i) for i in case["district"]], graph_probability=q, topo=[V(i) for i in case["topo"]])
        elif op == "lemma4":
            r = tid.compute_c_factor_marginalizing_over_topological_successors(
                district=[V(i) for i in case["district"]], graph_probability=q, topo=[V(i) for i in case["topo"]])
        elif op == "low_index":
            r = tid.compute_q_value_of_variables_with_low_topological_ordering_indices(
                vertex=None if case["vertex"] is None else V(case["vertex"]), graph_probability=q,
                topo=[V(i) for i in case["topo"]])
        elif op == "ancestral":
            r = tid.compute_ancestral_set_q_value(
                ancestral_set=frozenset(V(i) for i in case["A"]), subgraph_variables=frozenset(V(i) for i in case["H"]),
                subgraph_probability=q, graph_topo=[V(i) for i in case["topo"]])
        else:
            raise ValueError(op)
    except (KeyError, TypeError, ValueError, NotImplementedError, IndexError, ZeroDivisionError, AttributeError,
            nx.NetworkXError, RuntimeError, RecursionError) as e:
        return "err", type(e).__name__
    if r is None:
        return "ok", None
    return "ok", enc_shared(r)


def _py_out(status, val):
    if status == "err":
        return ["err"]
    if val is None:
        return ["ok", "none"]
    return ["ok", canon_expr(val)[0]]


# ------------------------------------------------------------------------------------------ oracle

@functools.lru_cache(maxsize=8)
def _model_c(gkey, seed, which, cards):
    g = json.loads(gkey)
    V = G.all_nodes(g)
    rng = random.Random(seed * 31 + which)
    if cards is None:
        cards = (2, 3) if len(V) <= 4 else (2, 2, 3)
    scm = S.Scm(V, g["di"], g["bi"], rng, cards=cards, extra_latents=len(V) <= 6)
    return scm, S.Evaluator(scm)


def _model(case, which):
    """the two shared random models of a case (cached per graph: all cases of one graph evaluate on the same
    tables; Scm caches Q[S] per set and per latent-connected group, the Evaluator caches every sub-expression)"""
    cards = tuple(case["cards"]) if case.get("cards") else None
    return _model_c(json.dumps(case["g"], sort_keys=True), case.get("scm_seed", 0), which, cards)


def _preconditions(case):
    """(valid?, target set, given set) according to the property statement"""
    g = case["g"]
    V = G.all_nodes(g)
    di = [tuple(e) for e in g["di"]]
    bi = [tuple(e) for e in g["bi"]]
    Vs = set(V)
    op = case["op"]
    if not V or not S.is_acyclic(V, di):
        return False, None, None
    topo = case["topo"]
    if op == "identify":
        T, Cs = set(case["T"]), set(case["C"])
        ok = (Cs and Cs <= T <= Vs and len(S.districts_of(bi, T)) == 1 and len(S.districts_of(bi, Cs)) == 1
              and len(topo) == len(set(topo)) and Vs <= set(topo) and S.is_topo([v for v in topo if v in Vs], V, di))
        return bool(ok), Cs, T
    H = set(case["H"])
    if not H or not H <= Vs:
        return False, None, None
    if op in ("c_factor", "ancestral"):
        ok_topo = len(topo) == len(set(topo)) and H <= set(topo) and \
            S.is_topo([v for v in topo if v in H], H, [e for e in di if e[0] in H and e[1] in H])
    else:
        ok_topo = S.is_topo(topo, H, [e for e in di if e[0] in H and e[1] in H])
    if not ok_topo:
        return False, None, None
    if op in ("c_factor", "lemma1", "lemma4"):
        d = set(case["district"])
        ok = len(d) == len(case["district"]) and frozenset(d) in set(S.districts_of(bi, H))
        return ok, d, H
    if op == "low_index":
        v = case["vertex"]
        if v is None:
            return True, set(), H
        if v not in H:
            return False, None, None
        return True, set(topo[: topo.index(v) + 1]), H
    if op == "ancestral":
        A = set(case["A"])
        ok = A <= H and S.ancestors_in(di, H, A) == A
        return ok, A, H
    return False, None, None


def _oracle(case, status, val):
    valid, target, given = _preconditions(case)
    info = {"valid": valid}
    if not valid:
        return None, info
    if case["op"] == "lemma1" and case["q"][0] not in ("P", "PP"):
        info["valid"] = False       # Lemma 1 (i) is stated for a probability of the whole set only
        return None, info
    if not case.get("evaluate", True):
        info["evaluated"] = False
        # graphs too large for the exact evaluator: only inputs whose expression denotes the c-factor by construction
        # of the generator (chain rule / Lemma 1 / Lemma 4 / truncated factorisation) are judged, and only for exceptions
        if status == "err" and case.get("q_by_construction"):
            return f"{case['op']}: raised {val} on an input that satisfies the preconditions", info
        return None, info
    hyp = True
    for which in (0, 1):
        scm, ev = _model(case, which)
        try:
            bad = ev.equals_full(case["q"], scm.q(given))
        except (S.Unsupported, S.DivisionByZero):
            bad = "unsupported"
        if bad is not None:
            hyp = False
            break
    info["hypothesis"] = hyp
    if not hyp:
        return None, info           # the given expression does not denote Q[T] / Q[H]: the property says nothing
    if status == "err":
        return f"{case['op']}: raised {val} although the input expression denotes the c-factor and the preconditions hold", info
    if val is None:
        info["result"] = "none"
        if case["op"] != "identify":
            return f"{case['op']} returned None", info
        return None, info
    info["result"] = "expr"
    for which in (0, 1):
        scm, ev = _model(case, which)
        try:
            diff = ev.equals_full(val, scm.q(target))
        except S.DivisionByZero:
            diff = {"error": "division by zero while evaluating the returned expression on a positive model"}
        except S.Unsupported as e:
            diff = {"error": f"returned expression outside the observational fragment: {e}"}
        if diff is not None:
            diff["model"] = scm.describe() if len(scm.nodes) <= 4 else {"scm_seed": case.get("scm_seed", 0), "which": which}
            return (f"{case['op']}: the returned expression does not equal Q[{sorted(target)}] "
                    f"(given Q[{sorted(given)}]) on a compatible positive SCM: {json.dumps(diff, sort_keys=True)}"), info
    return None, info


def run_python(case):
    status, val = _call(case)
    out = _py_out(status, val)
    fail, info = _oracle(case, status, val)
    g = case["g"]
    nontrivial = bool(info.get("valid") and info.get("hypothesis"))
    tags = {"op": case["op"], "n_nodes": len(G.all_nodes(g)), "qkind": case["op"] + ":" + str(case.get("qkind")),
            "outcome": "err:" + str(val) if status == "err" else ("none" if val is None else "expr"),
            "valid": info.get("valid"), "hypothesis_holds": info.get("hypothesis"),
            "qtype": case["q"] if isinstance(case["q"], str) else case["q"][0]}
    di = [tuple(e) for e in g["di"]]
    bi = [tuple(e) for e in g["bi"]]
    q = case["q"]
    qform = tags["qtype"]
    if qform in ("P", "PP"):
        k = 1 if qform == "P" else 2
        cond = bool(q[k + 1])
        do = any(v[4] for v in q[k] + q[k + 1])
        qform += ("[do]" if do else "") + ("(T|Z)" if cond else "(T)")
    if case["op"] == "identify" and info.get("valid"):
        steps, verdict = identify_trace(di, bi, case["C"], case["T"])
        A = S.ancestors_in(di, case["T"], case["C"])
        branch = "A=C" if A == set(case["C"]) else ("A=T" if A == set(case["T"]) else "recurse")
        tags["branch"] = branch + "/" + tags["qtype"]
        nontrivial = nontrivial and branch == "recurse"
        if info.get("hypothesis"):
            # shape of the run, computed from the case itself (not from the generator's intention)
            tags["shape"] = f"identify/depth{len(steps)}/{verdict}/{qform}"
            tags["depth"] = len(steps)
            if len(steps) >= 1 and qform == "P(T|Z)":
                tags["target_shape"] = "C17a:cond-plain-P,recursive" + (",depth>=2" if len(steps) >= 2 else "")
    elif info.get("valid"):
        nontrivial = nontrivial and len(case["H"]) >= 2
        if info.get("hypothesis"):
            H = set(case["H"])
            nd = len(S.districts_of(bi, H))
            tags["shape"] = f"{case['op']}/{qform}/districts={min(nd, 3)}{'+' if nd > 3 else ''}"
            if case["op"] in ("c_factor", "lemma4") and nd >= 2 and tags["qtype"] in ("prod", "sum", "frac"):
                htopo = [v for v in case["topo"] if v in H]
                if htopo and htopo[-1] not in set(case["district"]):
                    tags["target_shape"] = f"C17b:{case['op']},lemma4-form,>=2districts,last-var-outside-district"
    return {"out": out, "fail": fail, "nontrivial": nontrivial, "tags": tags}


# ------------------------------------------------------------------------------------------ model side

def request(case):
    g = case["g"]
    gs = C.graph_sexp(g["nodes"], g["di"], g["bi"])
    op = case["op"]
    q = case["q"]
    if op == "identify":
        return C.enc(["tian", op, gs, case["C"], case["T"], q, case["topo"]])
    if op == "c_factor":
        return C.enc(["tian", op, case["district"], case["H"], q, case["topo"]])
    if op in ("lemma1", "lemma4"):
        return C.enc(["tian", op, case["district"], q, case["topo"]])
    if op == "low_index":
        return C.enc(["tian", op, [] if case["vertex"] is None else [case["vertex"]], q, case["topo"]])
    if op == "ancestral":
        return C.enc(["tian", op, case["A"], case["H"], q, case["topo"]])
    raise ValueError(op)


DRIFT = {"n": 0}


class _ModelOut(list):
    """the canonical model output; compared with the canonical Python output structurally first and - only if they
    differ - by exact evaluation of both expressions on the shared random models (the real code is re-run for that)"""

    def bind(self, case, body):
        self._case, self._body = case, body
        return self

    def __eq__(self, other):
        if list.__eq__(self, other):
            return True
        return self._fallback(other)

    def __ne__(self, other):
        return not self.__eq__(other)

    __hash__ = None

    def _fallback(self, py):
        import time
        case = self._case
        if not (isinstance(py, list) and py[:1] == ["ok"] and len(py) == 2 and py[1] != "none"):
            return False
        if DRIFT.get("spent", 0.0) > 90.0 or not case.get("evaluate", True):   # budget of the fall-back (s per run)
            return False
        t0 = time.time()
        try:
            status, val = _call(case)
            if status != "ok" or val is None:
                return False
            return _same_by_evaluation(case, val, self._body, py, list(self)[1]) == py
        finally:
            DRIFT["spent"] = DRIFT.get("spent", 0.0) + time.time() - t0


def canon_model(case, rep):
    if rep[0] == "err":
        return ["err"]
    if rep[0] != "ok":
        return ["model-reply", rep]
    body = rep[1]
    if body == "none":
        return ["ok", "none"]
    return _ModelOut(["ok", canon_expr(body)[0]]).bind(case, body)


def _same_by_evaluation(case, val, body, py, m):
    try:
        for which in (0, 1):
            scm, ev = _model(case, which)
            if len(scm.nodes) > 8 or not ev.same(val, body):
                return ["ok", m]
    except (S.Unsupported, S.DivisionByZero, KeyError):
        return ["ok", m]
    DRIFT["n"] += 1
    return py


def _restrict_q(q, live):
    """drop the variables that left the graph from a bare probability (other expressions are kept as they are; the
    oracle's hypothesis check rejects them if they no longer denote the c-factor)"""
    if isinstance(q, list) and q and q[0] in ("P", "PP"):
        k = 1 if q[0] == "P" else 2
        keep = lambda vs: [[v[0], v[1], v[2], v[3], [i for i in v[4] if int(i[0]) in live]] for v in vs if int(v[1]) in live]  # noqa: E731
        ch, pa = keep(q[k]), keep(q[k + 1])
        if ch:
            return q[:k] + [ch, pa]
    return q


def shrink(case):
    if _TIMEOUTS["n"] >= 3:         # the real code hangs: every candidate would cost a time-out
        return
    for g in G.shrink_graph(case["g"]):
        live = set(G.all_nodes(g))
        c = dict(case)
        c["g"] = g
        c["q"] = _restrict_q(case["q"], live)
        for k in ("C", "T", "H", "A", "district", "topo"):
            if k in c:
                c[k] = [v for v in c[k] if v in live or v >= 90]
        if c.get("vertex") is not None and c["vertex"] not in live:
            continue
        yield c
    for k in ("C", "A"):
        if k in case:
            for i in range(len(case[k])):
                c = dict(case)
                c[k] = case[k][:i] + case[k][i + 1:]
                yield c


def finding_key(case, res):
    c = {k: case[k] for k in ("op", "g", "C", "T", "H", "A", "district", "vertex", "topo", "q") if k in case}
    return json.dumps(c, sort_keys=True)


MANIFEST = {
    "text": ("Proof. Lean theorems about an executable, branch-for-branch model of tian_id.py: tian_sound (for every "
             "acyclic graph, every topological listing, every C, T, every expression denoting Q[T] and every positive "
             "semi-Markovian model compatible with the graph, whatever expression identify_district_variables returns "
             "denotes Q[C] at every assignment; the routine's own validation makes C subset T, T subset topo, single "
             "district hypotheses unnecessary), tian_total (under Tian-Pearl's preconditions the result is an "
             "expression or FAIL, never an exception; the recursion strictly shrinks T) with four tian_rejects_* "
             "theorems characterising the validation errors, cfactor_lemma1_sound / cfactor_lemma4_sound / "
             "cfactor_sound (Lemma 1 incl. population-tagged and interventional probabilities, Lemma 4, and the "
             "type dispatch), ancestral_q_sound (Lemma 3), lowindex_sound (Eq. 72). They rest on the c-factor algebra "
             "(sink/split/ratio, Lemmas/QFactor) and on single-world probability calculus for M.env G. The model is "
             "tied to the code on every run by differential correspondence on generated and corpus inputs, and an "
             "exact-rational SCM oracle (Q[C] as the distribution under do(V\\C)) evaluates every returned "
             "expression at every assignment; that oracle found the defect fixed in 010d659 (Lemma 1 dropped "
             "intervention subscripts). A bare Probability given as Q[T]: with the hypothesis 'denotes Q[T]' in one model "
             "the theorems need its shape P_w(T u E | Z) (ProbShape, or the weaker ProbShapeIn of tian_sound_in that "
             "admits starred subscripts / parents and non-node extras); tian_sound_semantic, cfactor_sound_semantic and "
             "cfactor_lemma1_sound_semantic need NO syntactic hypothesis when 'denotes Q[T]' holds in every compatible "
             "positive model - tian_semantic_shape derives the shape from that by separating coin models - so the "
             "property's clause is proved as stated; cfactor_output_shape and tian_sound_ctftr_caller show that the one "
             "caller inside y0 (Algorithm 4 of ctf-TR: compute_c_factor followed by IDENTIFY) always supplies ProbShape."),
    "note": ("Trusted: Lean kernel; axioms propext/Classical.choice/Quot.sound; the specifications Y0/Spec/{Prob,Sem,Scm,"
             "TianSpec}.lean (model class: discrete, positive, independent root latents); the hand-written model of "
             "tian_id.py and of the dsl.py constructors it uses, tied to the code by sampling; networkx/sorted/frozenset "
             "behaviour is modelled. Not claimed: completeness of FAIL, models with latents that have parents; "
             "conjunctions across worlds have probability 0 in the single-world environment the theorems are about."),
    "technique": ("Lean 4 theorems (induction on the IDENTIFY recursion; finite-sum algebra; Tian-Pearl Lemmas 1, 3, 4 "
                  "mechanised) + differential correspondence with the real tian_id.py + exact-rational SCM oracle"),
}
