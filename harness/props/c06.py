"""C06 — estimands mention only distributions the analyst actually has.

One check over several algorithm families.  `SOURCES` lists, per family,
    (name, case generator(rng, tier) -> cases, runner(case) -> raw y0 estimand or None, vocabulary predicate
     (estimand, case) -> None | message, model request(case) -> line | None, model canon(case, reply))
so that the integrator can plug in TRSO / ID* / IDC* from the other families (their cases, runners and the
vocabulary predicates `transport_vocab`, `single_world_vocab` below).  Present now: ID and IDC.

Oracle: a syntactic walk over the REAL output (`obs_only`): every leaf is a plain `Probability` (no population
tag), every variable in it and every range variable of a `Sum` is a plain `Variable` (no star, not an
`Intervention`, not a `CounterfactualVariable`) naming a node of the user's graph; no Q-factor.
Correspondence: the same runs as C01 / C03 (the model's output must pass the same walk — it is compared with the
real output structurally by those checks; here the outcome class and the walk verdict are compared).
"""
from __future__ import annotations

import json
import random

from .. import common as C
from .. import gen_graph as G
from ..oracles import id_run as R
from . import c01, c03

PROP = "C06"
RULE = ("the C01 query stream (ID) and the C03 query stream (IDC) incl. textbook corpus; every returned estimand is walked "
        "syntactically. A case is non-trivial when an estimand was returned and the run used one of ID's lines 4-7 "
        "(the lines that build new terms).")
ASSUMPTIONS = [
    "ID / IDC: theorems id_vocab / idc_vocab (Props/C06Id.lean) are invariants of the recursion of the Lean models; they assume only that topological_sort lists nodes of the graph",
    "the vocabularies of TRSO, ID* and IDC* are decided by the walks `transport_vocab` / `single_world_vocab` once their families register a source here; their theorems live in the files of those families",
]
EXHAUSTIVE = {"quick": False, "thorough": False}
LEANCHECK_MODULES = ["Y0.Props.C06Id"]


# ------------------------------------------------------------------------------------------ vocabulary walks


def _walk(e):
    """yields ('P', probability) / ('range', variable) / ('other', node) for every leaf / range of the tree"""
    from y0.dsl import Fraction, One, Probability, Product, Sum, Zero

    if isinstance(e, Probability):
        yield "P", e
    elif isinstance(e, Product):
        for x in e.expressions:
            yield from _walk(x)
    elif isinstance(e, Sum):
        for r in e.ranges:
            yield "range", r
        yield from _walk(e.expression)
    elif isinstance(e, Fraction):
        yield from _walk(e.numerator)
        yield from _walk(e.denominator)
    elif isinstance(e, (One, Zero)):
        return
    else:
        yield "other", e


def _plain(v):
    from y0.dsl import CounterfactualVariable, Intervention, Variable

    return type(v) is Variable and v.star is None and not isinstance(v, (CounterfactualVariable, Intervention))


def obs_only(e, node_names):
    """None when `e` contains only observational terms over `node_names`, else what is wrong"""
    from y0.dsl import PopulationProbability

    for kind, x in _walk(e):
        if kind == "other":
            return f"non-probability leaf {type(x).__name__}: {x}"
        if kind == "range":
            if not _plain(x) or x.name not in node_names:
                return f"sum ranges over {x!r}, not a plain node of the user's graph"
            continue
        if isinstance(x, PopulationProbability):
            return f"population-tagged term {x}"
        for v in list(x.children) + list(x.parents):
            if not _plain(v):
                return f"term {x} mentions the non-observational variable {v!r}"
            if v.name not in node_names:
                return f"term {x} mentions {v.name}, not a node of the user's graph"
    return None


def transport_vocab(e, *, target, domains, experiments, transport_prefix="T_"):
    """for the transport family: every leaf is target-observational or (π, Z') with π declared and Z' ⊆ Z_π;
    no leaf or range mentions a selection node.  `experiments`: {population name: set of variable names}"""
    from y0.dsl import CounterfactualVariable, PopulationProbability

    for kind, x in _walk(e):
        if kind == "other":
            return f"non-probability leaf {type(x).__name__}"
        if kind == "range":
            if x.name.startswith(transport_prefix):
                return f"sum ranges over the selection node {x.name}"
            continue
        pop = x.population.name if isinstance(x, PopulationProbability) else target
        if pop != target and pop not in domains:
            return f"term {x} is tagged with the undeclared population {pop}"
        ivs = set()
        for v in list(x.children) + list(x.parents):
            if v.name.startswith(transport_prefix):
                return f"term {x} mentions the selection node {v.name}"
            if isinstance(v, CounterfactualVariable):
                ivs |= {i.name for i in v.interventions}
        allowed = set(experiments.get(pop, set()))
        if not ivs <= allowed:
            return f"term {x} intervenes on {sorted(ivs - allowed)}, not among the experiments of {pop}"
    return None


def single_world_vocab(e):
    """for ID* / IDC*: all variables of one leaf carry the same set of interventions"""
    from y0.dsl import CounterfactualVariable

    for kind, x in _walk(e):
        if kind != "P":
            continue
        worlds = set()
        for v in list(x.children) + list(x.parents):
            worlds.add(frozenset((i.name, i.star) for i in v.interventions) if isinstance(v, CounterfactualVariable) else frozenset())
        if len(worlds) > 1:
            return f"term {x} mixes {len(worlds)} worlds"
    return None


# ------------------------------------------------------------------------------------------ sources


def _id_cases(rng, tier):
    return [dict(c, src="id") for c in c01.cases(rng, tier)]


def _idc_cases(rng, tier):
    return [dict(c, src="idc") for c in c03.cases(rng, tier)]


def _id_run(case):
    return R.run_identify(case["g"], case["X"], case["Y"])


def _idc_run(case):
    return c03._run(case)


def _obs_pred(expr, case):
    names = {G.vname(v) for v in G.all_nodes(case["g"])}
    return obs_only(expr, names)


SOURCES = [
    # (name, case generator, runner -> run record with "expr"/"out"/"lines", vocabulary predicate, request, canon_model)
    ("id", _id_cases, _id_run, _obs_pred, c01.request, None),
    ("idc", _idc_cases, _idc_run, _obs_pred, c03.request, None),
]
_SRC = {s[0]: s for s in SOURCES}


def cases(rng: random.Random, tier: str):
    out = []
    for name, gen, *_ in SOURCES:
        sub = random.Random(rng.randrange(1 << 30))
        out.extend(gen(sub, tier))
    return out


def _model_walk(enc, case):
    """the same walk on an encoded (model) expression: returns None | message"""
    nodes = {str(v) for v in G.all_nodes(case["g"])}

    def go(x):
        if not isinstance(x, list):
            return None if x in ("one", "zero") else f"leaf {x}"
        t = x[0]
        if t == "P":
            for v in x[1] + x[2]:
                if v[2] != "n" or v[3] != "0" or v[4] or v[1] not in nodes:
                    return f"variable {v}"
            return None
        if t == "sum":
            for v in x[1]:
                if v[2] != "n" or v[3] != "0" or v[4] or v[1] not in nodes:
                    return f"range {v}"
            return go(x[2])
        if t == "prod":
            for f in x[1:]:
                m = go(f)
                if m:
                    return m
            return None
        if t == "frac":
            return go(x[1]) or go(x[2])
        return f"constructor {t}"
    return go(enc)


def run_python(case):
    name, _gen, run, pred, _req, _ = _SRC[case["src"]]
    r = run(case)
    fail = None
    verdict = "n/a"
    if r["exc"] is None:
        fail = pred(r["expr"], case)
        verdict = "clean" if fail is None else "dirty"
        if fail:
            fail = f"{name}: estimand outside the analyst's vocabulary: {fail}"
    out = [r["out"][0], verdict] if r["out"][0] == "ok" else r["out"]
    tags = {"source": name, "outcome": "ok" if r["exc"] is None else r["exc"], "n_nodes": len(G.all_nodes(case["g"]))}
    tags.update(R.line_tags(r["lines"]))
    nontrivial = r["exc"] is None and any(k in r["lines"] for k in "4567")
    return {"out": out, "fail": fail, "nontrivial": nontrivial, "tags": tags}


def request(case):
    return _SRC[case["src"]][4](case)


def canon_model(case, rep):
    m = R.model_out(rep)
    if m[0] != "ok":
        return m
    return ["ok", "clean" if _model_walk(m[1], case) is None else "dirty"]


def shrink(case):
    mod = c01 if case["src"] == "id" else c03
    for c in mod.shrink(case):
        yield dict(c, src=case["src"])


def finding_key(case, res):
    mod = c01 if case["src"] == "id" else c03
    return case["src"] + ":" + mod.finding_key(case, res)


MANIFEST = {
    "text": ("ID / IDC: Lean theorems id_vocab, identifyOutcomes_vocab (and idc_vocab) — invariants of the recursion of "
             "the models: every returned estimand contains only plain observational P(…) terms and sums over nodes of "
             "the user's graph, no subscripts, no starred/counterfactual variables, no Q-factors. Every run also walks "
             "the real outputs of ID and IDC syntactically. The transport / ID* / IDC* vocabularies are decided by the "
             "walks registered in SOURCES by their families."),
    "note": ("Trusted: Lean kernel; the hand-written models tied to the code by the C01/C03 correspondence; the only "
             "assumption about networkx is that topological_sort lists nodes of the graph."),
    "technique": "Lean 4 invariant theorems over the models' recursions + syntactic walk of the real outputs",
}
