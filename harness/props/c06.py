"""C06 — estimands mention only distributions the analyst actually has.

One check over the five identification algorithms.  `SOURCES` lists, per algorithm, a record with
    name      "id" | "idc" | "trso" | "idstar" | "idcstar"
    cases     (rng, tier) -> cases of that algorithm's input space (the generator of the owning family, sub-seeded)
    py        case -> run_python result: runs the REAL algorithm, walks the RAW estimand(s) it returns
    request   case -> request line for the Lean model (the request function of the owning family)
    model     (case, reply) -> the model's outcome class + the verdict of the SAME walk on the encoded model output
    shrink    case -> smaller cases;   key  case -> finding key

Oracle (written from the property statement; never looks at the Lean model): a syntactic walk over the real output.
`_walk` visits EVERYTHING: every probability leaf with its children and its conditioning side, every range variable
of every Sum, numerator and denominator of every Fraction, every factor of every Product; anything that is not
one of these constructors (a Q-factor, a foreign object) is reported as a non-probability leaf.

  ID / IDC  (`obs_only`)      every leaf is a plain `Probability` (no population tag); every variable in it and every
                              Sum range is a plain `Variable` (no star, not an `Intervention`, not a
                              `CounterfactualVariable`) that names a node of the user's graph.
  TRSO      (`transport_vocab`) every leaf carries a population tag and is either a TARGET term (population pi*, no
                              variable carries a subscript) or a term of a DECLARED source domain all of whose
                              variables carry one and the same subscript set, a subset of the experimental variables
                              the user declared FOR THAT domain; no variable, subscript or Sum range is a selection
                              node (`T_…`) or names anything outside the user's graph; no bare `Intervention` value.
  ID* / IDC* (`single_world_vocab`) in every leaf all variables (children and conditioning side) carry the same set of
                              subscripts (name and star): the leaf is a term of one interventional world.

Correspondence: the Lean model is asked the same query (request functions of C01 / C03 / C05 / C07 / C08); its encoded
output is walked with the same predicate written on the encoding (`_enc_*`), and (outcome class, walk verdict) must
agree with the real code's — for ID* / IDC* under every iteration order of the worlds and of district nodes.  The
estimands themselves are compared (structurally / by exact evaluation) by the checks of the owning properties.
"""
from __future__ import annotations

import importlib
import json
import logging
import os
import random
import re

from .. import common as C
from .. import gen_graph as G
from ..oracles import cf_common as K
from ..oracles import id_run as R
from . import c01, c03, c05, c07, c08, c18

PROP = "C06"
TARGET = c05.TARGET            # integer name of the target population pi* (source domain k is TARGET + 1 + k)
RULE = ("five sub-streams, one per algorithm, each from the generator of the owning property with an own sub-seed: "
        "ID = the C01 query stream, IDC = the C03 stream (textbook corpus first); TRSO = the identify cases of the C05 "
        "stream (paper examples, past witnesses, random ADMGs with 2-6 nodes x 0-2 source domains, perturbed corpus) plus "
        "a structured stream of TWO source domains that share an experimental variable with the target interventions, one "
        "declaring a strict subset of the other's experiments, in both insertion orders (the only inputs on which several "
        "domains pass line 6 at once); ID* = the C07 event stream, IDC* = the C08 (outcomes, conditions) stream, each "
        "run under every iteration order of the worlds / district nodes and once unpatched. Every estimand returned by "
        "the real code is walked syntactically (all leaves, conditioning sides, Sum ranges, fraction parts). A case is "
        "non-trivial when an estimand was returned and the run built new terms: ID / IDC used one of lines 4-7; TRSO "
        "reached one of lines 4, 6, 9, 10; ID* / IDC* answered with a proper estimand (not One / Zero) for an event with "
        "at least one counterfactual world on a graph with an edge.")
ASSUMPTIONS = [
    "ID / IDC sources: each query is run in the argument form recorded for the case by C01 / C03 (harness/forms.py, id_run.id_slots: X / Y / Z as every collection type, one-shot iterable or bare Variable; Identification(..) / from_parts / from_expression / identify_outcomes positional or keyword; every public graph constructor), tagged form_*; the TRSO and ID* / IDC* sources belong to other modules and are driven in their single historical form here",
    "ID / IDC: theorems id_vocab, identifyOutcomes_vocab, idc_vocab (Props/C06Id.lean) are invariants of the recursion of "
    "the Lean models; they assume only that topological_sort lists nodes of the graph (TopoNodes)",
    "TRSO: theorem trso_vocab (Props/C06Transport.lean) proves for the model: every leaf is tagged, target leaves are plain, "
    "source leaves belong to a declared domain and all their variables carry ONE non-empty subscript set inside that "
    "domain's declared experiments, no leaf / range is a selection node. 'Every mentioned name is a node of the user's "
    "graph' is NOT part of the Lean statement for TRSO (only 'is not a selection node'); it is decided by the walk of "
    "the real output on every run",
    "ID* / IDC*: theorems idstar_vocab, idcstar_vocab_c06 (Props/C06Cf.lean) hold for every graph, event, fuel and "
    "iteration order of the model; the Python iterates hash-ordered sets, the harness drives it through every order of "
    "the worlds and both orders of district nodes / exchanged keys and additionally once unpatched",
    "the models are tied to the code by sampling (this check compares outcome class and walk verdict; C01/C03/C05/C07/C08 "
    "compare the estimands); theorems speak about the models",
    "the walk is a runtime check of the inputs generated in this run, not a theorem about the Python; the quantifier's "
    "input spaces are those of C01, C03, C05, C07, C08 (for ID*/IDC* a dirty estimand on an input outside that space, "
    "e.g. a cyclic graph, is recorded but not a violation)",
    "a target-domain term must carry the tag pi*: an untagged P(...) in a TRSO estimand is reported (it is not a term of "
    "any declared distribution); starred subscripts are not judged by the TRSO clause (a subscript is an experiment on "
    "that variable whatever its value)",
]
EXHAUSTIVE = {"quick": False, "thorough": False}
ESCALATED_TIER = "escalated"   # an anchored source changed: three differently seeded quick streams per algorithm
LEANCHECK_MODULES = ["Y0.Props.C06Id", "Y0.Props.C06Transport", "Y0.Props.C06Cf", "Y0.Props.C06"]
TRANSPORT_PREFIX = "T_"


# ------------------------------------------------------------------------------------------ walks over real outputs


def _walk(e):
    """yields ('P', probability) / ('range', variable) / ('other', node) for every leaf / range of the tree"""
    from y0.dsl import Fraction, One, Probability, Product, Sum, Zero

    if isinstance(e, Probability):          # PopulationProbability is a subclass
        yield "P", e
    elif isinstance(e, Product):
        for x in e.expressions:
            yield from _walk(x)
    elif isinstance(e, Sum):
        for r in e.ranges:
            yield "range", r
        yield from _walk(e.expression)
    elif isinstance(e, Fraction):
        yield from _walk(e.numerator)
        yield from _walk(e.denominator)
    elif isinstance(e, (One, Zero)):
        return
    else:
        yield "other", e


def _plain(v):
    from y0.dsl import CounterfactualVariable, Intervention, Variable

    return type(v) is Variable and v.star is None and not isinstance(v, (CounterfactualVariable, Intervention))


def _leaf_vars(p):
    return list(p.children) + list(p.parents)


def obs_only(e, node_names):
    """ID / IDC: None when `e` contains only observational terms over `node_names`, else what is wrong"""
    from y0.dsl import PopulationProbability

    for kind, x in _walk(e):
        if kind == "other":
            return f"non-probability leaf {type(x).__name__}: {x}"
        if kind == "range":
            if not _plain(x) or x.name not in node_names:
                return f"sum ranges over {x!r}, not a plain node of the user's graph"
            continue
        if isinstance(x, PopulationProbability):
            return f"population-tagged term {x}"
        for v in _leaf_vars(x):
            if not _plain(v):
                return f"term {x} mentions the non-observational variable {v!r}"
            if v.name not in node_names:
                return f"term {x} mentions {v.name}, not a node of the user's graph"
    return None


def _subscripts(v):
    from y0.dsl import CounterfactualVariable

    return list(v.interventions) if isinstance(v, CounterfactualVariable) else []


def transport_vocab(e, *, target, experiments, node_names, transport_prefix=TRANSPORT_PREFIX):
    """TRSO: every leaf is a target observational term or a term of a declared source domain under a subset of THAT
    domain's declared experiments; nothing mentions a selection node or a name outside the user's graph.
    `target`: name of the target population; `experiments`: {population name: set of variable names}"""
    from y0.dsl import Intervention, PopulationProbability

    def foreign(name):
        if name.startswith(transport_prefix):
            return f"the selection node {name}"
        if name not in node_names:
            return f"{name}, not a node of the user's graph"
        return None

    def bad_variable(v):
        if isinstance(v, Intervention):
            return f"the bare value {v!r} (not a random variable)"
        for name in [v.name] + [i.name for i in _subscripts(v)]:
            m = foreign(name)
            if m:
                return m
        return None

    for kind, x in _walk(e):
        if kind == "other":
            return f"non-probability leaf {type(x).__name__}: {x}"
        if kind == "range":
            m = bad_variable(x)
            if m:
                return f"sum ranges over {x!r}: mentions {m}"
            continue
        for v in _leaf_vars(x):
            m = bad_variable(v)
            if m:
                return f"term {x} mentions {m}"
        if not isinstance(x, PopulationProbability):
            return f"term {x} carries no population tag: it is a term of no declared distribution"
        pop = x.population.name
        worlds = {frozenset(i.name for i in _subscripts(v)) for v in _leaf_vars(x)}
        if len(worlds) > 1:
            return f"term {x} mixes variables under {len(worlds)} different experiments"
        do = next(iter(worlds)) if worlds else frozenset()
        if pop == target:
            if do:
                return (f"term {x} is a target-domain term under an intervention on {sorted(do)}; only the observational "
                        "distribution of the target domain is available")
        elif pop in experiments:
            extra = do - set(experiments[pop])
            if extra:
                return (f"term {x} is a term of domain {pop} under an experiment on {sorted(do)}, but the experiments "
                        f"declared for {pop} are {sorted(experiments[pop])} ({sorted(extra)} not declared)")
        else:
            return f"term {x} is tagged with the undeclared population {pop}"
    return None


def single_world_vocab(e):
    """ID* / IDC*: all variables of one leaf (children and conditioning side) carry the same set of subscripts"""
    for kind, x in _walk(e):
        if kind == "other":
            return f"non-probability leaf {type(x).__name__}: {x}"
        if kind != "P":
            continue
        worlds = {frozenset((i.name, bool(i.star)) for i in _subscripts(v)) for v in _leaf_vars(x)}
        if len(worlds) > 1:
            return f"term {x} mixes {len(worlds)} worlds"
    return None


# ------------------------------------------------------------------------------------------ the same walks on encodings
# encoded var ["v", name, star, isIntervention, [[name, "m"|"p"], ...]] ; expr see harness/enc_expr.py (all atoms strings)


def _enc_walk(x):
    if isinstance(x, str):
        if x not in ("one", "zero"):
            yield "other", x
        return
    t = x[0] if x else None
    if t == "P":
        yield "P", (None, list(x[1]) + list(x[2]))
    elif t == "PP":
        yield "P", (x[1], list(x[2]) + list(x[3]))
    elif t == "sum":
        for v in x[1]:
            yield "range", v
        yield from _enc_walk(x[2])
    elif t == "prod":
        for f in x[1:]:
            yield from _enc_walk(f)
    elif t == "frac":
        yield from _enc_walk(x[1])
        yield from _enc_walk(x[2])
    else:
        yield "other", x


def _enc_plain(v, nodes):
    return str(v[2]) == "n" and str(v[3]) == "0" and not v[4] and str(v[1]) in nodes


def _enc_obs_only(enc, case):
    nodes = {str(v) for v in G.all_nodes(case["g"])}
    for kind, x in _enc_walk(enc):
        if kind == "other":
            return f"constructor {x}"
        if kind == "range":
            if not _enc_plain(x, nodes):
                return f"range {x}"
            continue
        pop, vs = x
        if pop is not None:
            return f"population-tagged leaf {pop}"
        for v in vs:
            if not _enc_plain(v, nodes):
                return f"variable {v}"
    return None


def _is_selection(name):
    return 200 <= int(name) < 300      # gen_graph.vname: 200..299 are the T_… names


def _enc_transport_vocab(enc, case):
    nodes = {int(v) for v in G.all_nodes(case["g"])}
    decl = {TARGET + 1 + k: set(Z) for k, (Z, _W) in enumerate(case["domains"])}

    def bad_variable(v):
        if str(v[3]) == "1":
            return f"bare value {v}"
        for name in [v[1]] + [a for a, _ in v[4]]:
            if _is_selection(name):
                return f"selection node {name}"
            if int(name) not in nodes:
                return f"{name} outside the graph"
        return None

    for kind, x in _enc_walk(enc):
        if kind == "other":
            return f"constructor {x}"
        if kind == "range":
            m = bad_variable(x)
            if m:
                return f"range {x}: {m}"
            continue
        pop, vs = x
        for v in vs:
            m = bad_variable(v)
            if m:
                return f"leaf mentions {m}"
        if pop is None:
            return "leaf without a population tag"
        p = int(pop[1])
        worlds = {frozenset(int(a) for a, _ in v[4]) for v in vs}
        if len(worlds) > 1:
            return "leaf mixes experiments"
        do = next(iter(worlds)) if worlds else frozenset()
        if p == TARGET:
            if do:
                return f"target leaf under do({sorted(do)})"
        elif p in decl:
            if not do <= decl[p]:
                return f"leaf of domain {p} under do({sorted(do)}), declared {sorted(decl[p])}"
        else:
            return f"undeclared population {p}"
    return None


def _enc_single_world(enc, case=None):
    for kind, x in _enc_walk(enc):
        if kind == "other":
            return f"constructor {x}"
        if kind != "P":
            continue
        worlds = {frozenset((int(a), str(s) == "p") for a, s in v[4]) for v in x[1]}
        if len(worlds) > 1:
            return f"leaf mixes {len(worlds)} worlds"
    return None


def _verdict(msg):
    return "clean" if msg is None else "dirty"


# ------------------------------------------------------------------------------------------ ID and IDC


def _id_cases(rng, tier):
    return [dict(c, src="id") for c in c01.cases(rng, tier)]


def _idc_cases(rng, tier):
    return [dict(c, src="idc") for c in c03.cases(rng, tier)]
# (the walk is cheap: the whole C01 and C03 streams are used, SCM evaluation is not repeated here)


def _id_run(case):
    # the C01 run: every argument in the form recorded for the case (harness/forms.py, id_run.id_slots)
    return c01._run_memo(case)


def _idc_run(case):
    return c03._run(case)


def _obs_pred(expr, case):
    names = {G.vname(v) for v in G.all_nodes(case["g"])}
    return obs_only(expr, names)


def _std_py(name, run):
    def py(case):
        r = run(case)
        fail = None
        verdict = "n/a"
        if r["exc"] is None:
            fail = _obs_pred(r["expr"], case)
            verdict = _verdict(fail)
            if fail:
                fail = f"{name}: estimand outside the analyst's vocabulary: {fail}"
        out = [r["out"][0], verdict] if r["out"][0] == "ok" else r["out"]
        tags = {"source": name, "outcome": "ok" if r["exc"] is None else r["exc"], "n_nodes": len(G.all_nodes(case["g"]))}
        tags.update(R.line_tags(r["lines"]))
        tags.update(R.id_form_tags(case, (c01 if name == "id" else c03)._forms(case)))
        nontrivial = r["exc"] is None and any(k in r["lines"] for k in "4567")
        return {"out": out, "fail": fail, "nontrivial": nontrivial, "tags": tags}
    return py


def _std_model(case, rep):
    m = R.model_out(rep)
    if m[0] != "ok":
        return m
    return ["ok", _verdict(_enc_obs_only(m[1], case))]


def _std_shrink(mod, name):
    def shrink(case):
        for c in mod.shrink(case):
            yield dict(c, src=name)
    return shrink


def _std_key(mod, name):
    return lambda case, res: name + ":" + mod.finding_key(case, res)


# ------------------------------------------------------------------------------------------ TRSO

# two source domains that pass line 6 together (A=0 B=1 C=2 D=3); both insertion orders are generated from each
_TWO_DOMAIN_SEEDS = [
    # chain A -> B -> C with A <-> C ; P*(C | do(B)) ; pi1 experiments on A, pi2 on A and B
    {"g": {"nodes": [], "di": [[0, 1], [1, 2]], "bi": [[0, 2]]}, "X": [1], "Y": [2], "domains": [[[0], [1, 2]], [[0, 1], [2]]]},
    {"g": {"nodes": [], "di": [[0, 2], [1, 0], [1, 2]], "bi": []}, "X": [1], "Y": [2], "domains": [[[0], [1, 2]], [[0, 1], [2]]]},
    {"g": {"nodes": [], "di": [[0, 1], [3, 1]], "bi": [[0, 1]]}, "X": [0, 3], "Y": [1], "domains": [[[0], [1]], [[0, 3], [1]]]},
    {"g": {"nodes": [], "di": [[0, 1], [1, 2], [3, 2]], "bi": [[0, 2]]}, "X": [1, 3], "Y": [2],
     "domains": [[[1], [2]], [[1, 3], [2]]]},
]


def _trso_case(g, X, Y, domains, seed=0):
    return {"kind": "identify", "g": g, "X": sorted(X), "Y": sorted(Y), "domains": domains, "eval_seed": seed, "src": "trso"}


def _two_domain_cases(rng, n):
    """TWO source domains sharing an experimental variable `a` with the target interventions; the first declares a
    strict subset of the second's experiments; surrogate outcomes generous (so that few selection nodes appear and line 6
    lets both through); every draw in both insertion orders"""
    out = []
    for s in _TWO_DOMAIN_SEEDS:
        out.append(_trso_case(s["g"], s["X"], s["Y"], [list(d) for d in s["domains"]], 5))
        out.append(_trso_case(s["g"], s["X"], s["Y"], [list(d) for d in reversed(s["domains"])], 5))
    while len(out) < n:
        g = G.rand_graph(rng, 3, 5, acyclic=True, pd=rng.choice([0.4, 0.6, 0.8]), pb=rng.choice([0.0, 0.15, 0.3]))
        nodes = G.all_nodes(g)
        if len(nodes) < 3:
            continue
        perm = nodes[:]
        rng.shuffle(perm)
        nx_ = rng.randint(1, min(2, len(nodes) - 1))
        X, Y = perm[:nx_], perm[nx_:nx_ + 1]
        a = rng.choice(X)
        pool = [v for v in nodes if v != a and v not in Y]
        if not pool:
            continue
        pref = [v for v in pool if v in X] or pool
        extra = {rng.choice(pref if rng.random() < 0.6 else pool)}
        if rng.random() < 0.25:
            extra.add(rng.choice(pool))
        common = {a} | ({rng.choice(pool)} - extra if rng.random() < 0.15 else set())
        z_small, z_big = sorted(common), sorted(common | extra)

        def outcomes(Z):
            r = rng.random()
            if r < 0.5:
                return sorted(set(nodes) - set(Z))
            if r < 0.8:
                return sorted(set(Y) | {v for v in nodes if v not in Z and rng.random() < 0.5})
            return sorted(Y)
        doms = [[z_small, outcomes(z_small)], [z_big, outcomes(z_big)]]
        seed = rng.randrange(1 << 30)
        out.append(_trso_case(g, X, Y, doms, seed))
        out.append(_trso_case(g, X, Y, [doms[1], doms[0]], seed))
    return out


def _corpus(src):
    """corpus/C06/*.json: witnesses kept by this check; every case carries its "src" """
    return [c for c in K.load_corpus(PROP) if c.get("src") == src]


def _trso_cases(rng, tier):
    out = _corpus("trso")
    out += _two_domain_cases(rng, {"quick": 700, "escalated": 700}.get(tier, 6000))
    out += [dict(c, src="trso") for c in c05.cases(rng, "quick" if tier == "escalated" else tier)
            if c["kind"] == "identify" and "malformed" not in c and c.get("stream") != "two_domain"]
    return out


class _TrsoLog(logging.Handler):
    """records (without changing anything) which lines of TRSO a run reached, from the algorithm's own log messages"""

    def __init__(self):
        super().__init__()
        self.reset()

    def reset(self):
        self.lines, self.several = set(), False

    def emit(self, rec):
        m = rec.msg if isinstance(rec.msg, str) else ""
        if "more than one expression" in m:
            self.several = True
        mm = re.search(r"algorithm line (\d+)", m)
        if mm:
            self.lines.add(int(mm.group(1)))


_TRSO_LOG = None


def _trso_log():
    global _TRSO_LOG
    if _TRSO_LOG is None:
        _TRSO_LOG = _TrsoLog()
        lg = logging.getLogger("y0.algorithm.transport")
        lg.addHandler(_TRSO_LOG)
        lg.setLevel(logging.DEBUG)
        lg.propagate = False
    _TRSO_LOG.reset()
    return _TRSO_LOG


def _trso_run(case):
    """the real identify_target_outcomes on the case: (outcome class, RAW estimand | None, info)"""
    T = importlib.import_module("y0.algorithm.transport")
    g = case["g"]
    graph = G.to_nx_mixed({"nodes": G.all_nodes(g), "di": g["di"], "bi": g["bi"]})
    V = G.V
    so = {V(TARGET + 1 + k): {V(w) for w in W} for k, (_Z, W) in enumerate(case["domains"])}
    si = {V(TARGET + 1 + k): {V(z) for z in Z} for k, (Z, _W) in enumerate(case["domains"])}
    log = _trso_log()
    passed = []                       # how many domains passed the line-6 helper, per call of trso_line6
    orig6 = getattr(T, "trso_line6", None)
    if orig6 is not None:
        def rec6(query):
            r = orig6(query)
            passed.append(len(r))
            return r
        T.trso_line6 = rec6
    try:
        with c05.recursion_guard():
            est = T.identify_target_outcomes(graph, target_outcomes={V(y) for y in case["Y"]},
                                             target_interventions={V(x) for x in case["X"]},
                                             surrogate_outcomes=so, surrogate_interventions=si)
        cls = "none" if est is None else "ok"
    except RecursionError:
        cls, est = "err", None
    except Exception:  # noqa: BLE001   (what an exception means is C05's business; here: no estimand was returned)
        cls, est = "err", None
    finally:
        if orig6 is not None:
            T.trso_line6 = orig6
    return cls, est, {"lines": sorted(log.lines), "several": log.several, "line6_passed": max(passed, default=0)}


def _trso_pred(est, case):
    nodes = {G.vname(v) for v in G.all_nodes(case["g"])}
    experiments = {G.vname(TARGET + 1 + k): {G.vname(z) for z in Z} for k, (Z, _W) in enumerate(case["domains"])}
    return transport_vocab(est, target=G.vname(TARGET), experiments=experiments, node_names=nodes)


def _trso_py(case):
    from y0.dsl import PopulationProbability

    logging.getLogger("y0").setLevel(logging.CRITICAL)
    cls, est, info = _trso_run(case)
    fail = None
    out = [cls]
    tags = {"source": "trso", "outcome": cls, "n_nodes": len(G.all_nodes(case["g"])), "trso_domains": len(case["domains"]),
            "trso_lines": ",".join(map(str, info["lines"])), "trso_domains_passing_line6": info["line6_passed"],
            "trso_several_domains_identified": info["several"]}
    if cls == "ok":
        msg = _trso_pred(est, case)
        out = ["ok", _verdict(msg)]
        if msg:
            fail = f"trso: estimand outside the analyst's vocabulary: {msg}; estimand {str(est)[:300]}"
        tags["trso_uses_source_domain"] = any(
            k == "P" and isinstance(x, PopulationProbability) and x.population.name != G.vname(TARGET) for k, x in _walk(est))
    nontrivial = cls == "ok" and bool(set(info["lines"]) & {4, 6, 9, 10})
    return {"out": out, "fail": fail, "nontrivial": nontrivial, "tags": tags}


def _trso_model(case, rep):
    if rep[0] == "err":
        return ["err"]
    if rep[0] == "none":
        return ["none"]
    if rep[0] != "ok":
        return ["bad-reply", rep]
    return ["ok", _verdict(_enc_transport_vocab(rep[1], case))]


def _trso_shrink(case):
    for c in c05.shrink(case):
        yield dict(c, src="trso")


def _trso_key(case, res):
    return "trso:" + c05.finding_key(case, res)


# ------------------------------------------------------------------------------------------ ID* and IDC*


def _idstar_cases(rng, tier):
    t = "quick" if tier == "escalated" else tier
    return [dict(c, src="idstar") for c in _corpus("idstar") + c07.cases(rng, t)]


def _idcstar_cases(rng, tier):
    t = "quick" if tier == "escalated" else tier
    return [dict(c, src="idcstar") for c in _corpus("idcstar") + c08.cases(rng, t)]


def _idstar_run(case, strategy):
    """the real id_star under one iteration order (None: unpatched): (outcome class, RAW estimand | None)"""
    from y0.algorithm.identify import Unidentifiable

    ids = importlib.import_module("y0.algorithm.identify.id_star")
    try:
        graph = G.to_nx_mixed(case["g"])
        event = K.dec_event(case["event"])
        with K.fixed_orders(strategy):
            est = ids.id_star(graph, event)
    except Unidentifiable:
        return "unidentifiable", None
    except RecursionError:
        return "err", None
    except Exception:  # noqa: BLE001   (crashes are C07's business; here: no estimand was returned)
        return "err", None
    return "ok", est


def _idcstar_run(case, strategy):
    """the real idc_star under one iteration order (None: unpatched): (outcome class, RAW estimand | None)"""
    from y0.algorithm.identify import Unidentifiable

    idc = importlib.import_module("y0.algorithm.identify.idc_star")
    try:
        graph = G.to_nx_mixed(case["g"])
        outcomes, conditions = K.dec_event(case["outcomes"]), K.dec_event(case["conditions"])
        with K.fixed_orders_idc(strategy):
            est = idc.idc_star(graph, outcomes, conditions)
    except Unidentifiable:
        return "unidentifiable", None
    except ValueError as e:
        return ("rejected" if "ID* algorithm returned 0" in str(e) else "err"), None
    except RecursionError:
        return "err", None
    except Exception:  # noqa: BLE001
        return "err", None
    return "ok", est


def _cf_py(name, run, strategies_of, in_domain, event_of):
    def py(case):
        from y0.dsl import One, Zero

        ev = event_of(case)
        by_order, fail, shapes = [], None, set()
        dom = bool(in_domain(case))
        proper = False
        for s in list(strategies_of(case)) + [None]:
            cls, est = run(case, s)
            msg = None
            if cls == "ok":
                msg = single_world_vocab(est)
                proper = proper or not isinstance(est, (One, Zero))
                shapes.add(type(est).__name__)
                if msg and dom and fail is None:
                    fail = (f"{name}: estimand contains a term that is not single-world: {msg}; estimand {str(est)[:300]}; "
                            f"iteration order {s if s is not None else 'unpatched'}")
            else:
                shapes.add(cls)
            if s is not None:
                by_order.append([cls, _verdict(msg)] if cls == "ok" else [cls])
        g = case["g"]
        tags = {"source": name, "outcome": by_order[0][0], "n_nodes": len(G.all_nodes(g)), "cf_worlds": K.n_worlds(ev),
                "cf_in_domain": dom, "cf_answer": ",".join(sorted(shapes)),
                "cf_order_dependent": any(x != by_order[0] for x in by_order)}
        nontrivial = dom and proper and K.n_worlds(ev) >= 1 and bool(g["di"] or g["bi"])
        return {"out": ["orders", by_order], "fail": fail, "nontrivial": bool(nontrivial), "tags": tags}
    return py


def _cf_model(case, rep):
    if rep[0] != "ok":
        return ["model-error", rep]
    out = []
    body = rep[1:]
    if body and isinstance(body[0], list) and body[0] and body[0][0] == "frag":
        body = body[1:]  # the C07 / C08 driver ops prefix their replies with the fragment flags of the case
    for r in body:
        if r[0] == "err":
            if r[1] == "unidentifiable":
                out.append(["unidentifiable"])
            elif r[1] == "invalid" and len(r) > 2 and r[2] == "ImpossibleCondition":
                out.append(["rejected"])
            else:
                out.append(["err"])
        else:
            out.append(["ok", _verdict(_enc_single_world(r[1]))])
    return ["orders", out]


def _cf_shrink(name, keys):
    def shrink(case):
        for c in K.shrink_event_case(case, keys=keys):
            yield dict(c, src=name)
    return shrink


def _cf_key(name, keys):
    def key(case, res):
        g = case["g"]
        c = {"g": {"nodes": sorted(G.all_nodes(g)), "di": sorted(map(list, g["di"])), "bi": sorted(sorted(e) for e in g["bi"])}}
        for k in keys:
            c[k] = K.sort_event(case[k])
        return name + ":" + json.dumps(c, sort_keys=True)
    return key


# ------------------------------------------------------------------------------------------ sources

SOURCES = [
    {"name": "id", "cases": _id_cases, "py": _std_py("id", _id_run), "request": c01.request, "model": _std_model,
     "shrink": _std_shrink(c01, "id"), "key": _std_key(c01, "id")},
    {"name": "idc", "cases": _idc_cases, "py": _std_py("idc", _idc_run), "request": c03.request, "model": _std_model,
     "shrink": _std_shrink(c03, "idc"), "key": _std_key(c03, "idc")},
    {"name": "trso", "cases": _trso_cases, "py": _trso_py, "request": c05.request, "model": _trso_model,
     "shrink": _trso_shrink, "key": _trso_key},
    {"name": "idstar", "cases": _idstar_cases,
     "py": _cf_py("idstar", _idstar_run, lambda c: K.id_strategies(c["event"]), c18._in_domain, lambda c: c["event"]),
     "request": c07.request, "model": _cf_model, "shrink": _cf_shrink("idstar", ("event",)), "key": _cf_key("idstar", ("event",))},
    {"name": "idcstar", "cases": _idcstar_cases,
     "py": _cf_py("idcstar", _idcstar_run, lambda c: K.id_strategies(c08.joint(c)), c08._in_domain, c08.joint),
     "request": c08.request, "model": _cf_model, "shrink": _cf_shrink("idcstar", ("outcomes", "conditions")),
     "key": _cf_key("idcstar", ("outcomes", "conditions"))},
]
_SRC = {s["name"]: s for s in SOURCES}


def cases(rng: random.Random, tier: str):
    out = []
    # VERIF_C06_SOURCES=trso,...: run only the named sub-streams (a tool for mutation campaigns on ONE algorithm's source file, never
    # the registered check); the sub-seeds of the other streams are drawn all the same, so a restricted run replays the full run's cases
    only = [x for x in os.environ.get("VERIF_C06_SOURCES", "").split(",") if x]
    for src in SOURCES:
        sub = random.Random(rng.randrange(1 << 30))
        if only and src["name"] not in only:
            continue
        if tier != "escalated":
            out.extend(src["cases"](sub, tier))
            continue
        # an anchored source file changed: three differently seeded quick streams (corpus / structured heads once)
        seen = set()
        for k in range(3):
            gen_tier = "escalated" if src["name"] == "trso" else "quick"
            for c in src["cases"](random.Random(sub.randrange(1 << 30)), gen_tier):
                key = json.dumps(c, sort_keys=True)
                if key not in seen:
                    seen.add(key)
                    out.append(c)
    return out


def run_python(case):
    return _SRC[case["src"]]["py"](case)


def request(case):
    return _SRC[case["src"]]["request"](case)


def canon_model(case, rep):
    return _SRC[case["src"]]["model"](case, rep)


def shrink(case):
    yield from _SRC[case["src"]]["shrink"](case)


def finding_key(case, res):
    return _SRC[case["src"]]["key"](case, res)


MANIFEST = {
    "text": ("Lean theorems, one group per algorithm, each an invariant of the recursion of the executable model "
             "(42 theorems: Props/C06Id, C06Transport, C06Cf, and the summary Props/C06): "
             "ID / IDC — id_vocab, identifyOutcomes_vocab, idc_vocab: every returned estimand contains only plain "
             "observational P(...) terms and sums over nodes of the user's graph: no population tag, no subscripts, no "
             "starred / counterfactual variables, no Q-factors; "
             "TRSO — trso_vocab (with activate_vocab, trsoF_vocab_target / _source, trso_vocab_no_domains): every leaf is a "
             "target observational term over plain variables or a term of a DECLARED source domain all of whose variables "
             "carry the same non-empty subscript set, a subset of that domain's declared experiments; no leaf and no Sum "
             "range is a selection node; "
             "ID* / IDC* — idstar_vocab, idstar_vocab_fuel, idcstar_vocab_c06: in every leaf all variables carry the same "
             "subscript set (one interventional world), for every graph, event, fuel and iteration order. "
             "c06_id_idc, c06_transport, c06_counterfactual restate the three clauses in the property's words. "
             "Every run walks the RAW estimands returned by the real identify / idc / identify_target_outcomes / id_star / "
             "idc_star (all leaves, conditioning sides, Sum ranges, fraction parts) with predicates written from the "
             "property text, and compares outcome class and walk verdict with the model's output for the same query. "
             "Not in the Lean statement for TRSO and decided by the walk only: every mentioned name is a node of the "
             "user's graph."),
    "note": ("Trusted: Lean kernel; axioms propext/Classical.choice/Quot.sound; the hand-written models tied to the code by "
             "the correspondences of C01/C03/C05/C07/C08 (estimands) and of this check (outcome class + vocabulary "
             "verdict); the only assumption about networkx is that topological_sort lists nodes of the graph; the "
             "Python iterates hash-ordered sets: ID*/IDC* are driven through every order of the worlds and both orders "
             "of district nodes / exchanged keys."),
    "technique": ("Lean 4 invariant theorems over the models' recursions + syntactic walk of the real outputs of all "
                  "five algorithms + differential comparison of the walk verdicts with the models"),
}
