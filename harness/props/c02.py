"""C02 — ID verdicts are total, complete (w.r.t. hedges) and side-effect free.

Correspondence: `identify(Identification)` / `identify_outcomes` of the real code vs the Lean model
`Y0.idAlg` / `Y0.identifyOutcomes` (Y0/Model/Id.lean) — outcome class (estimand / unidentifiable / other
failure) and, for estimands, the expression itself (compared structurally up to the order of factors).

Oracle (from the property statement, independent of the model):
 (a) verdict == an independent complete decision procedure for identifiability (Tian / Huang-Valtorta
     c-component criterion) and, on graphs with <= 5 (thorough: 6) nodes, == brute-force hedge search;
 (b) any exception other than `Unidentifiable` on a valid query (RecursionError included) is a failure;
 (c) the caller's graph, sets and Identification/Query objects are deep-compared before / after.
"""
from __future__ import annotations

import json
import random
from pathlib import Path

from .. import common as C
from .. import forms as F
from .. import gen_graph as G
from ..oracles import hedge as H
from ..oracles import id_run as R

PROP = "C02"
RULE = ("ADMGs with 2-7 nodes (generator weighted towards sparse directed chains with a few bidirected edges; isolated "
        "and irrelevant nodes, several districts, treatments that are not ancestors of outcomes) x disjoint non-empty "
        "X, Y (1-3 treatments, 1-2 outcomes) through identify(Identification) and identify_outcomes; corpus = every "
        "graph of y0.examples with <= 8 nodes and the witnesses of F1/F3; a malformed stream (overlapping X and Y, nodes "
        "outside the graph, empty Y, empty X) for the error taxonomy; structured nested napkins with 2-3 levels, the same with one "
        "extra bidirected edge (refusal after nested line 7s), line 4 into several multi-node districts, and |X| <= 4, |Y| <= 4 on "
        "6-8 nodes (gap review round 5); a SMALL-SCOPE EXHAUSTIVE stream: every labelled ADMG on <= 3 nodes x every valid query, "
        "thorough also 1 in 6 of all (4-node labelled ADMG, single treatment, single outcome) pairs. A case is non-trivial when the query is valid "
        "and the run reached at least one of ID's lines 4-7.")
ASSUMPTIONS = [
    "argument FORMS (harness/forms.py, harness/oracles/id_run.py id_slots; chosen deterministically per case, stored in the case, tagged form_*): treatments / outcomes as set / frozenset / list / tuple / dict keys / generator / iterator / map or a bare Variable for a one-element set; the Identification made by Identification(query=Query(..), graph=..) by keyword or by position, by from_parts, or by from_expression from P[X](Y) and P(Y @ X) (valid queries only); identify_outcomes positional or by keyword; 'no conditions' omitted / None / an empty set or list -- for identify_outcomes an EMPTY collection is not None and routes the query through IDC with nothing to condition on (estimand E / sum_Y E), which the model side mirrors with identify_outcomes_c and an empty condition list; the graph through every public constructor. 'Caller's objects unchanged' covers every re-iterable argument collection (one-shot iterables are consumed by definition)",
    "clause 'leaves the caller's graph and query objects unchanged' is a Python-runtime clause (R): decided by deep comparison of the graph, the argument sets and the Identification/Query objects before and after every call, not by a theorem (the model is pure)",
    "clause 'refuses exactly when the effect is not identifiable (a hedge exists)': `id_fail_iff_hedge` proves refusal <=> a hedge (Y0/Spec/Hedge.lean: Shpitser-Pearl 2006 Def. 6 on vertex sets) exists for the ORIGINAL query, both directions on the graph; 'a hedge exists => not identifiable from P(v)' (Shpitser-Pearl Thm 4: two models agreeing on P(v) and differing on P_x(y)) is the theorem hedge_not_identifiable (Props/C02Complete.lean, see the last entry); 'estimand returned => identifiable, by that estimand' is C01's id_sound; the verdict is also compared per input with two independent decision procedures (c-component criterion; brute-force hedge search up to 6 nodes)",
    "`graph.topological_sort()` (networkx, on a graph rebuilt from a Python set) is a parameter `topo` of the model; the theorems assume it returns a linear extension of the directed part (trusted: networkx); the correspondence feeds the orders observed in the real run",
    "'a hedge exists => not identifiable' (Shpitser-Pearl 2006 Thm 4) IS now a theorem, `hedge_not_identifiable` in Y0/Props/C02Complete.lean (two positive models of the class Y0/Spec/Scm.lean with equal P(v) and different P_x(y)), and the clause is `id_refuses_iff_not_identifiable` / `id_ok_iff_identifiable` for every valid query with treatments inside the graph; 'identifiable' is Y0/Spec/Identifiable.lean (compatible positive discrete models with independent root latents shared only across bidirected edges, equal ranges of the observed variables, distributions compared at in-range assignments) -- non-identifiability relative to a larger model class (latents with parents, non-positive distributions) follows a fortiori, identifiability relative to a larger class does not",
]
EXHAUSTIVE = {"quick": False, "thorough": False}   # the `smallscope` stream IS exhaustive over every labelled ADMG on <= 3 nodes x every valid query (both tiers); the claim of the check is not bounded by it
LEANCHECK_MODULES = ["Y0.Model.Id", "Y0.Model.IdDsl", "Y0.Props.C02"]
CORPUS_DIR = C.VERIF / "corpus" / "C02"


def _corpus():
    out = []
    if CORPUS_DIR.exists():
        for f in sorted(CORPUS_DIR.glob("*.json")):
            d = json.loads(f.read_text())
            out.extend(d if isinstance(d, list) else [d])
    return out


def _example_cases():
    out = []
    for name, g, idx in R.example_corpus():
        nodes = G.all_nodes(g)
        rng = random.Random(len(name) * 7919 + len(nodes))
        pairs = []
        if "X" in idx and "Y" in idx:
            pairs.append(([idx["X"]], [idx["Y"]]))
        for _ in range(3):
            q = R.rand_query(rng, nodes)
            if q:
                pairs.append(q)
        for X, Y in pairs:
            out.append({"g": g, "X": X, "Y": Y, "via": "identify", "label": "example:" + name})
    return out


def _slots(case):
    return R.id_slots(case["X"], case["Y"], None, case.get("via", "identify"))


def _forms(case):
    return F.forms_of(case, _slots(case))


def cases(rng: random.Random, tier: str):
    return [F.assign(c, _slots(c)) for c in _cases(rng, tier)]


def _cases(rng: random.Random, tier: str):
    out = [dict(c) for c in _corpus()] + _example_cases()
    n = 16000 if tier == "quick" else 90000
    for k in range(n):
        nmax = 7 if k % 3 else 5
        g = R.gen_graph(rng, 2, nmax)
        nodes = G.all_nodes(g)
        if rng.random() < 0.12:
            kind, X, Y = R.malformed_query(rng, nodes)
            out.append({"g": g, "X": X, "Y": Y, "via": rng.choice(["identify", "identify_outcomes"]), "label": "malformed:" + kind})
            continue
        q = R.rand_query(rng, nodes)
        if q is None:
            continue
        c = {"g": g, "X": q[0], "Y": q[1], "via": "identify" if rng.random() < 0.8 else "identify_outcomes",
             "label": "random"}
        if tier == "thorough" and len(nodes) == 6 and rng.random() < 0.12:
            c["hedge_limit"] = 6   # brute-force hedge search on a sample of the 6-node graphs (exponential)
        out.append(c)
    # structured (gap review round 5; appended so that the earlier cases of a seed are unchanged): nested napkins with 2-3
    # levels (line 7 two / three times), the same with one extra bidirected edge (refusal only after nested line 7s:
    # 7 -> 7 -> 5), line 4 into several multi-node districts with outcomes in 2-3 districts, and |X| <= 4, |Y| <= 4 on
    # graphs with 6-8 nodes (rand_query stops at |X| = 3, |Y| = 2)
    ns = 300 if tier == "quick" else 2000
    for k in range(ns):
        t = k % 6
        if t < 3:
            g, X, Y, kind = R.napkin_tower(rng, levels=3 if t else 2, refuse=bool(k % 2))
        else:
            g, X, Y, kind = R.multi_district_family(rng, (5, 6, 7)[t - 3])
        out.append({"g": g, "X": X, "Y": Y, "via": "identify" if k % 5 else "identify_outcomes", "label": "structured:" + kind})
    nb = 1200 if tier == "quick" else 8000
    for k in range(nb):
        g = R.gen_graph(rng, 6, 8)
        q = R.big_query(rng, G.all_nodes(g))
        out.append({"g": g, "X": q[0], "Y": q[1], "via": "identify" if k % 5 else "identify_outcomes", "label": "bigquery"})
    out.extend(_small_scope(tier))
    return out


def _small_scope(tier):
    """SMALL-SCOPE EXHAUSTIVE stream (session 4): EVERY labelled ADMG on 1-3 nodes (1 + 6 + 200 graphs) x EVERY valid query
    (non-empty disjoint X, Y: 0 / 2 / 12 per graph = 2412 cases), both tiers; thorough adds every labelled ADMG on 4 nodes
    (34752) x every single-treatment single-outcome query (12) sampled 1 in 6 by a fixed stride (69504 cases).  All of
    these graphs have <= 5 nodes, so the brute-force hedge search decides the completeness clause on each."""
    out = []
    for n in (1, 2, 3):
        for g in G.all_labelled_admgs(n):
            for r in G.all_role_assignments(n, ("X", "Y"), ("X", "Y")):
                out.append({"g": g, "X": r["X"], "Y": r["Y"], "via": "identify" if len(out) % 4 else "identify_outcomes",
                            "label": "smallscope:%d" % n})
    if tier == "thorough":
        k = 0
        for g in G.all_labelled_admgs(4):
            for x in range(4):
                for y in range(4):
                    if x != y:
                        k += 1
                        if k % 6 == 0:
                            out.append({"g": g, "X": [x], "Y": [y], "via": "identify", "label": "smallscope:4"})
    return out


def is_valid(case):
    V = set(G.all_nodes(case["g"]))
    X, Y = set(case["X"]), set(case["Y"])
    return bool(X) and bool(Y) and not (X & Y) and X <= V and Y <= V and R.is_acyclic(case["g"])


def run_python(case):
    g = case["g"]
    fm = _forms(case)
    r = R.run_identify(g, case["X"], case["Y"], via=case.get("via", "identify"), forms=fm)
    valid = is_valid(case)
    fail = r["exc_msg"] if r["exc"] == "ConstructorFault" else None
    V = G.all_nodes(g)
    tags = {"kind": case.get("label", "?").split(":")[0], "n_nodes": len(V), "outcome": r["out"][0] + ":" + str(r["out"][1])[:14]
            if r["out"][0] == "err" else "ok", "valid": valid, "via": case.get("via", "identify"),
            "has_isolated": len(V) > len({x for e in g["di"] + g["bi"] for x in e}),
            "n_x": len(case["X"]), "n_y": len(case["Y"])}
    tags.update(R.line_tags(r["lines"]))
    tags.update(R.id_form_tags(case, fm))
    if r["exc"] not in (None, "Unidentifiable"):
        tags["exception"] = r["exc"]
    if valid and fail is None:
        di = [tuple(e) for e in g["di"]]
        bi = [tuple(e) for e in g["bi"]]
        if r["exc"] not in (None, "Unidentifiable"):
            fail = f"ID failed with {r['exc']} ({r['exc_msg']}) on a valid query: neither an estimand nor 'unidentifiable'"
        else:
            verdict = r["exc"] is None
            tian = H.identifiable_tian(V, di, bi, case["X"], case["Y"])
            if len(V) <= case.get("hedge_limit", 5):
                hedge = H.find_hedge(V, di, bi, case["X"], case["Y"])
                if (hedge is None) != tian:
                    raise RuntimeError(f"oracles disagree: c-component criterion says identifiable={tian}, hedge search found {hedge}")
                tags["hedge_checked"] = True
            else:
                hedge = "not searched"
            if verdict != tian:
                fail = (f"ID verdict identifiable={verdict} but the effect is identifiable={tian} "
                        f"(c-component criterion; hedge: {hedge})")
        if fail is None and r["mutated"]:
            fail = r["mutated"]
    nontrivial = valid and any(k in r["lines"] for k in "4567")
    return {"out": r["out"], "fail": fail, "nontrivial": nontrivial, "tags": tags}


def request(case):
    fm = _forms(case)
    r = R.run_identify(case["g"], case["X"], case["Y"], via=case.get("via", "identify"), forms=fm)
    tape, _ = R.tape_sexp(r["tape"])
    g = case["g"]
    gs = C.graph_sexp(G.all_nodes(g), g["di"], g["bi"])
    op = "identify_outcomes" if case.get("via") == "identify_outcomes" else "identify"
    if op == "identify_outcomes" and fm.get("no_conditions", "").startswith("empty"):
        # conditions=set() / [] is not None: api.py runs IDC with an empty conditioning set
        return C.enc(["id", "identify_outcomes_c", gs, sorted(set(case["X"])), sorted(set(case["Y"])), [], tape])
    return C.enc(["id", op, gs, sorted(set(case["X"])), sorted(set(case["Y"])), tape])


def canon_model(case, rep):
    return R.model_out(rep)


def shrink(case):
    for g in G.shrink_graph(case["g"]):
        live = set(G.all_nodes(g))
        c = dict(case)
        c["g"] = g
        c["X"] = [v for v in case["X"] if v in live]
        c["Y"] = [v for v in case["Y"] if v in live]
        if c["X"] and c["Y"]:
            yield c
    for key in ("X", "Y"):
        if len(case[key]) > 1:
            for k in range(len(case[key])):
                c = dict(case)
                c[key] = case[key][:k] + case[key][k + 1:]
                yield c


def finding_key(case, res):
    g = case["g"]
    return json.dumps({"di": sorted(map(list, g["di"])), "bi": sorted(sorted(e) for e in g["bi"]),
                       "nodes": sorted(G.all_nodes(g)), "X": sorted(case["X"]), "Y": sorted(case["Y"])}, sort_keys=True)


MANIFEST = {
    "text": ("Lean model of identify()/identify_outcomes (well-founded recursion on the measure (|V|, |V-X|); every Python "
             "exception an explicit outcome) tied to the real code by differential correspondence on every run. Theorems: "
             "step_decreases (every recursive call is on a valid input with a strictly smaller measure), idAlg_measure_ok "
             "(the guard of the well-founded definition never fires = termination), id_total / identifyOutcomes_total (valid "
             "query => only an estimand or 'unidentifiable', no internal error; uses the node-preservation facts of C14, i.e. "
             "the F1 fix), id_total_acyclic (closed form with a provably correct sorter and relational acyclicity), "
             "step_refusal_line5 (a refusal is raised only by line 5: graph and graph minus X are single districts, X non-empty), "
             "id_fail_iff_hedge: ID refuses EXACTLY when the original graph and query have a hedge in the sense of "
             "Shpitser-Pearl Def. 6 on vertex sets (id_ok_iff_no_hedge: an estimand exactly when there is none). => "
             "(id_fail_hedge): line 5's hedge V', V'-X' of the refusing sub-problem is transported back through lines 2, 3, "
             "4, 7 with the same vertex sets (step_hedge, reach_hedge). <= (id_hedge_fail): a hedge survives every line of "
             "the recursion and excludes lines 1 and 6 (step_hedge_down), so by totality ID refuses; no probability is "
             "involved. The verdict is also compared per input with two independent decision procedures (c-component "
             "criterion of Tian/Huang-Valtorta; brute-force hedge search <= 5/6 nodes); soundness of positive verdicts is "
             "C01's id_sound. COMPLETENESS in the sense of the property (Props/C02Complete.lean): hedge_not_identifiable "
             "(Shpitser-Pearl Thm 4 mechanised: for every hedge two compatible positive models with equal P(v) and different "
             "P_x(y), by an epsilon-perturbed parity construction) and id_ok_identifiable give id_refuses_iff_not_identifiable / "
             "id_ok_iff_identifiable / identifiable_iff_no_hedge: ID refuses exactly when the effect is not identifiable from "
             "the observational distribution (Y0/Spec/Identifiable.lean). Absence of side effects: deep comparison of the "
             "caller's objects on every run."),
    "note": ("Trusted: Lean kernel; axioms propext/Classical.choice/Quot.sound; the hand-written model and the model of "
             "networkx/set iteration (topological order taken as a parameter), tied to the code by sampling; "
             "'identifiable' is relative to the model class of Y0/Spec/Scm.lean (positive discrete models, independent root latents); 'no mutation' is a runtime clause."),
    "technique": "Lean 4 theorems about an executable model (well-founded recursion, invariants) + differential correspondence + independent complete identifiability oracle + hedge brute force",
}
