"""C14 — mixed-graph surgery operations meet their set-theoretic definitions.

Correspondence: every operation of NxMixedGraph named by the property, real code vs Lean model (Y0.Model.Graph).
Oracle: naive set-theoretic re-statement of each definition, applied to the real result; receiver unchanged;
insertion-order independence (same call on a re-shuffled construction of the same graph).
"""
from __future__ import annotations

import itertools as itt
import random

from .. import common as C
from .. import gen_graph as G

PROP = "C14"
RULE = ("random mixed graphs (0-8 nodes; isolated nodes, bidirected-only nodes, parallel directed+bidirected pairs, "
        "cycles for the operations defined on them, random insertion order) x every operation x random node subsets "
        "(empty, all, partial, and non-members); thorough adds every mixed graph on <=3 labelled nodes. "
        "A case is non-trivial when the graph has >=3 nodes, at least one edge of each kind present or an isolated node, "
        "and the argument set is neither empty nor everything.")
ASSUMPTIONS = [
    "clause 'the receiver is never modified' is a Python-runtime clause (R): decided by comparing nodes()/edges() of the receiver before and after every call, not by a theorem (the model is pure)",
    "topological_sort: the theorem says the result is a linear extension for every insertion order; equality of the exact order with networkx is correspondence only",
    "intervene: node relabelling is modelled as an injective map f; the harness decodes CounterfactualVariable nodes back to base names and checks their subscripts separately",
]
EXHAUSTIVE = {"quick": False, "thorough": False}
LEANCHECK_MODULES = ["Y0.Model.Graph", "Y0.Props.C14"]

OPS_SET = ["subgraph", "remove_in_edges", "remove_out_edges", "remove_nodes_from", "intervene",
           "ancestors_inclusive", "descendants_inclusive", "get_markov_pillow", "get_markov_blanket", "pre"]
OPS_NOARG = ["districts", "moralize", "disorient", "topological_sort"]
OPS = OPS_SET + OPS_NOARG + ["nodes_in_directed_paths", "pre_order"]
CYCLIC_OK = {"subgraph", "remove_in_edges", "remove_out_edges", "remove_nodes_from", "intervene",
             "ancestors_inclusive", "descendants_inclusive", "get_markov_pillow", "get_markov_blanket",
             "districts", "moralize", "disorient", "topological_sort", "nodes_in_directed_paths"}

CORPUS = [
    # F1 witness: A->B, B<->C ; remove_in_edges({B}) must keep A and C
    {"op": "remove_in_edges", "g": {"nodes": [], "di": [[0, 1]], "bi": [[1, 2]]}, "S": [1]},
    {"op": "remove_in_edges", "g": {"nodes": [3], "di": [[0, 2]], "bi": []}, "S": [0]},
    {"op": "subgraph", "g": {"nodes": [4], "di": [[0, 1], [1, 2]], "bi": [[0, 2]]}, "S": [0, 2, 4]},
    {"op": "districts", "g": {"nodes": [5], "di": [[0, 1]], "bi": [[1, 2], [3, 0]]}},
    {"op": "topological_sort", "g": {"nodes": [], "di": [[0, 1], [1, 2], [2, 0]], "bi": []}},
    {"op": "nodes_in_directed_paths", "g": {"nodes": [], "di": [[0, 1], [1, 2], [2, 1], [2, 3]], "bi": []}, "S": [0], "T": [3]},
]


def cases(rng: random.Random, tier: str):
    out = [dict(c) for c in CORPUS]
    n = 1500 if tier == "quick" else 12000
    for _ in range(n):
        op = rng.choice(OPS)
        acyclic = not (op in CYCLIC_OK and rng.random() < 0.3)
        g = G.rand_graph(rng, 0, 8 if op != "nodes_in_directed_paths" else 6, acyclic=acyclic)
        nodes = G.all_nodes(g)
        c = {"op": op, "g": g}
        if op in OPS_SET or op == "pre_order":
            c["S"] = G.rand_subset(rng, nodes, allow_outside=0.08)
        if op == "nodes_in_directed_paths":
            c["S"] = G.rand_subset(rng, nodes, p=rng.choice([0.2, 0.4]), allow_outside=0.03)
            c["T"] = G.rand_subset(rng, nodes, p=rng.choice([0.2, 0.4]), allow_outside=0.03)
        if op == "pre_order":
            o = list(nodes)
            rng.shuffle(o)
            c["order"] = o if rng.random() < 0.9 else []
        if op == "intervene":
            c["S"] = [v for v in c["S"] if v in nodes]
            c["stars"] = [rng.random() < 0.5 for _ in c["S"]]
        c["shuffle_seed"] = rng.randrange(1 << 30)
        out.append(c)
    if tier == "thorough":
        for k in (1, 2, 3):
            for g in G.enumerate_graphs(k, cyclic=True):
                for op in ("remove_in_edges", "remove_out_edges", "remove_nodes_from", "subgraph",
                           "ancestors_inclusive", "descendants_inclusive", "get_markov_pillow"):
                    for r in range(k + 1):
                        for S in itt.combinations(range(k), r):
                            out.append({"op": op, "g": g, "S": list(S), "shuffle_seed": 1})
                for op in ("districts", "topological_sort", "moralize", "disorient"):
                    out.append({"op": op, "g": g, "shuffle_seed": 1})
    return out


# ------------------------------------------------------------------------------------------ real code

def _canon_nxgraph(graph, decode=G.vint):
    nodes = [str(decode(n)) for n in graph.nodes()]
    di = [[str(decode(u)), str(decode(v))] for u, v in graph.directed.edges()]
    bi = [[str(decode(u)), str(decode(v))] for u, v in graph.undirected.edges()]
    return C.canon_graph(["graph", nodes, di, bi])


def _snapshot(graph):
    return (list(graph.directed.nodes()), list(graph.undirected.nodes()), list(graph.directed.edges()),
            list(graph.undirected.edges()))


def _call(case, g):
    """run the operation on the real code; returns canonical output"""
    import networkx as nx
    from y0.dsl import Intervention
    from y0.graph import get_nodes_in_directed_paths

    op = case["op"]
    graph = G.to_nx_mixed(g)
    S = {G.V(i) for i in case.get("S", [])}
    before = _snapshot(graph)
    extra = None
    try:
        if op == "subgraph":
            out = ["ok", _canon_nxgraph(graph.subgraph(S))]
        elif op == "remove_in_edges":
            out = ["ok", _canon_nxgraph(graph.remove_in_edges(S))]
        elif op == "remove_out_edges":
            out = ["ok", _canon_nxgraph(graph.remove_out_edges(S))]
        elif op == "remove_nodes_from":
            out = ["ok", _canon_nxgraph(graph.remove_nodes_from(S))]
        elif op == "intervene":
            ivs = {Intervention(name=G.vname(i), star=st) for i, st in zip(case["S"], case["stars"])}
            r = graph.intervene(ivs)
            bad = [n for n in r.nodes() if getattr(n, "interventions", None) != frozenset(ivs) and ivs]
            extra = "intervene: node without the requested subscripts" if bad else None
            out = ["ok", _canon_nxgraph(r)]
        elif op == "ancestors_inclusive":
            out = ["ok", C.as_set([str(G.vint(v)) for v in graph.ancestors_inclusive(S)])]
        elif op == "descendants_inclusive":
            out = ["ok", C.as_set([str(G.vint(v)) for v in graph.descendants_inclusive(S)])]
        elif op == "get_markov_pillow":
            out = ["ok", C.as_set([str(G.vint(v)) for v in graph.get_markov_pillow(S)])]
        elif op == "get_markov_blanket":
            out = ["ok", C.as_set([str(G.vint(v)) for v in graph.get_markov_blanket(S)])]
        elif op == "districts":
            ds = graph.districts()
            out = ["ok", C.as_set([C.as_set([str(G.vint(v)) for v in d]) for d in ds])]
        elif op == "moralize":
            out = ["ok", _canon_nxgraph(graph.moralize())]
        elif op == "disorient":
            r = graph.disorient()
            out = ["ok", C.canon_graph(["graph", [str(G.vint(n)) for n in r.nodes()], [],
                                        [[str(G.vint(u)), str(G.vint(v))] for u, v in r.edges()]])]
        elif op == "topological_sort":
            out = ["ok", [str(G.vint(v)) for v in graph.topological_sort()]]
        elif op == "pre":
            out = ["ok", [str(G.vint(v)) for v in graph.pre(S)]]
        elif op == "pre_order":
            out = ["ok", [str(G.vint(v)) for v in graph.pre(S, [G.V(i) for i in case["order"]])]]
        elif op == "nodes_in_directed_paths":
            T = {G.V(i) for i in case["T"]}
            out = ["ok", C.as_set([str(G.vint(v)) for v in get_nodes_in_directed_paths(graph, S, T)])]
        else:
            raise ValueError(op)
    except (nx.NetworkXError, nx.NetworkXUnfeasible, nx.NodeNotFound, KeyError, RuntimeError, ValueError) as e:
        out = ["err"]
        extra_tag = type(e).__name__  # noqa: F841
    after = _snapshot(graph)
    if before != after:
        extra = "receiver modified by the call"
    return out, extra


# ------------------------------------------------------------------------------------------ oracle

def _closure(start, step):
    seen = set(start)
    todo = list(start)
    while todo:
        v = todo.pop()
        for w in step(v):
            if w not in seen:
                seen.add(w)
                todo.append(w)
    return seen


def _expected(case):
    """independent set-theoretic definition; returns canonical expected output or None (no opinion)"""
    g = case["g"]
    op = case["op"]
    V = set(G.all_nodes(g))
    di = {tuple(e) for e in g["di"]}
    bi = {frozenset(e) for e in g["bi"]}
    S = set(case.get("S", []))
    if not S <= V or (op == "intervene" and not S):
        return None  # the property quantifies over node subsets of the graph
    pa = lambda v: {u for (u, w) in di if w == v}  # noqa: E731
    ch = lambda v: {w for (u, w) in di if u == v}  # noqa: E731

    def cg(nodes, d, b):
        return ["ok", C.canon_graph(["graph", [str(x) for x in nodes], [[str(u), str(v)] for u, v in d],
                                     [[str(x) for x in sorted(e)] * (2 if len(e) == 1 else 1) for e in b]])]

    if op == "subgraph":
        return cg(S, {e for e in di if e[0] in S and e[1] in S}, {e for e in bi if e <= S})
    if op in ("remove_in_edges", "intervene"):
        return cg(V, {e for e in di if e[1] not in S}, {e for e in bi if not (e & S)})
    if op == "remove_out_edges":
        return cg(V, {e for e in di if e[0] not in S}, bi)
    if op == "remove_nodes_from":
        return cg(V - S, {e for e in di if e[0] not in S and e[1] not in S}, {e for e in bi if not (e & S)})
    if op == "ancestors_inclusive":
        return ["ok", C.as_set([str(v) for v in _closure(S, pa)])] if S <= V else None
    if op == "descendants_inclusive":
        return ["ok", C.as_set([str(v) for v in _closure(S, ch)])] if S <= V else None
    if op == "get_markov_pillow":
        return ["ok", C.as_set([str(v) for v in set().union(*[pa(s) for s in S]) - S])] if S <= V else None
    if op == "get_markov_blanket":
        if not S <= V:
            return None
        b = set()
        for s in S:
            b |= pa(s) | ch(s) | set().union(*[pa(c) for c in ch(s)])
        return ["ok", C.as_set([str(v) for v in b - S])]
    if op == "districts":
        nb = lambda v: {w for e in bi if v in e for w in e}  # noqa: E731
        ds = {frozenset(_closure({v}, nb)) for v in V}
        return ["ok", C.as_set([C.as_set([str(v) for v in d]) for d in ds])]
    if op == "moralize":
        extra = {frozenset(p) for v in V for p in itt.combinations(sorted(pa(v)), 2)}
        return cg(V, di, bi | extra)
    if op == "disorient":
        return cg(V, set(), bi | {frozenset(e) for e in di})
    return None


def _oracle(case, out):
    g = case["g"]
    op = case["op"]
    V = set(G.all_nodes(g))
    di = {tuple(e) for e in g["di"]}
    exp = _expected(case)
    if exp is not None and out != exp:
        return f"{op}: result differs from the set-theoretic definition: expected {exp} got {out}"
    if op == "topological_sort":
        desc = {v: _closure({v}, lambda x: {w for (u, w) in di if u == x}) - {v} for v in V}
        cyclic = any(v in _closure({w for (u, w) in di if u == v}, lambda x: {w for (u, w) in di if u == x}) for v in V)
        if cyclic:
            return None if out[0] == "err" else "topological_sort returned an order for a cyclic graph"
        if out[0] != "ok":
            return "topological_sort failed on an acyclic graph"
        o = [int(x) for x in out[1]]
        if sorted(o) != sorted(V):
            return "topological_sort is not a permutation of the nodes"
        pos = {v: i for i, v in enumerate(o)}
        if any(pos[u] >= pos[v] for (u, v) in di):
            return "topological_sort violates an edge"
        del desc
    if op == "nodes_in_directed_paths" and out[0] == "ok":
        S, T = set(case["S"]), set(case["T"])
        if S <= V and T <= V and not (S & T):
            exp = set()

            def dfs(path, t):
                cur = path[-1]
                if cur == t:
                    exp.update(path)
                    return
                for (u, w) in di:
                    if u == cur and w not in path:
                        dfs(path + [w], t)
            for s in S:
                for t in T:
                    dfs([s], t)
            if C.as_set([str(v) for v in exp]) != out[1]:
                return f"nodes_in_directed_paths: expected {sorted(exp)} got {out[1]}"
    return None


def run_python(case):
    g = case["g"]
    out, extra = _call(case, g)
    fail = extra or _oracle(case, out)
    if fail is None and case["op"] not in ("topological_sort", "pre") and not (case["op"] == "pre_order" and not case["order"]):
        g2 = G.shuffled(random.Random(case.get("shuffle_seed", 0)), g)
        c2 = dict(case)
        if "order" in case:
            c2["order"] = case["order"]
        out2, _ = _call(c2, g2)
        if out2 != out:
            fail = f"{case['op']}: result depends on insertion order: {out} vs {out2} (graph {g2})"
    V = G.all_nodes(g)
    S = case.get("S")
    nontrivial = len(V) >= 3 and (bool(g["di"]) and bool(g["bi"]) or len(V) > len({x for e in g["di"] + g["bi"] for x in e})) \
        and (S is None or 0 < len(set(S) & set(V)) < len(V))
    tags = {"op": case["op"], "n_nodes": len(V), "outcome": out[0],
            "has_isolated": len(V) > len({x for e in g["di"] + g["bi"] for x in e}),
            "arg_outside_graph": bool(S) and not set(S) <= set(V)}
    return {"out": out, "fail": fail, "nontrivial": nontrivial, "tags": tags}


# ------------------------------------------------------------------------------------------ model side

def request(case):
    g = case["g"]
    gs = C.graph_sexp(g["nodes"], g["di"], g["bi"])
    op = case["op"]
    if op in OPS_NOARG:
        return C.enc(["graph", op, gs])
    if op == "nodes_in_directed_paths":
        return C.enc(["graph", op, gs, case["S"], case["T"]])
    if op == "pre_order":
        return C.enc(["graph", op, gs, case["S"], case["order"]])
    return C.enc(["graph", op, gs, case["S"]])


def canon_model(case, rep):
    op = case["op"]
    if rep[0] == "err":
        return ["err"]
    body = rep[1]
    if op in ("subgraph", "remove_in_edges", "remove_out_edges", "remove_nodes_from", "intervene", "moralize", "disorient"):
        return ["ok", C.canon_graph(body)]
    if op == "districts":
        return ["ok", C.as_set([C.as_set(d) for d in body])]
    if op in ("topological_sort", "pre", "pre_order"):
        return ["ok", list(body)]
    return ["ok", C.as_set(list(body))]


def shrink(case):
    for g in G.shrink_graph(case["g"]):
        c = dict(case)
        c["g"] = g
        live = set(G.all_nodes(g))
        if "S" in c and c["op"] == "intervene":
            keep = [i for i, v in enumerate(c["S"]) if v in live]
            c["S"] = [c["S"][i] for i in keep]
            c["stars"] = [c["stars"][i] for i in keep]
        if "order" in c:
            c["order"] = [v for v in c["order"] if v in live]
        yield c
    for key in ("S", "T"):
        if key in case and case["op"] != "intervene":
            for k in range(len(case[key])):
                c = dict(case)
                c[key] = case[key][:k] + case[key][k + 1:]
                yield c


def finding_key(case, res):
    import json
    c = {k: case[k] for k in ("op", "g", "S", "T", "order") if k in case}
    return json.dumps(c, sort_keys=True)


MANIFEST = {
    "text": ("Proof: 40+ Lean theorems characterise, for every mixed graph and every node subset, the node set, directed "
             "edge set and bidirected edge set of subgraph / remove_in_edges / remove_out_edges / remove_nodes_from / "
             "intervene, ancestors and descendants as reflexive-transitive closures, districts as the partition by "
             "bidirected connectivity, Markov pillow/blanket, disorient, pre, and insertion-order independence "
             "(congruence under NxMixedGraph.__eq__). The model is tied to graph.py by the correspondence check on every "
             "run. moralize / topological_sort / get_nodes_in_directed_paths are covered by correspondence + oracle; "
             "their theorems are listed in DESIGN.md as open or done."),
    "note": ("Trusted: Lean kernel; axioms propext/Classical.choice/Quot.sound; the hand-written model of graph.py and "
             "networkx (insertion-ordered dict semantics, nx.ancestors error behaviour) tied to the code by sampling; "
             "'receiver unchanged' is a runtime clause checked by the harness on every call, not a theorem."),
    "technique": "Lean 4 theorems (induction over from_edges folds, fuel-bounded closure = ReflTransGen) + differential correspondence with the real NxMixedGraph + set-theoretic oracle",
}
