"""C14 — mixed-graph surgery operations meet their set-theoretic definitions.

Correspondence: every operation of NxMixedGraph named by the property, real code vs Lean model (Y0.Model.Graph).
Oracle: naive set-theoretic re-statement of each definition, applied to the real result; receiver unchanged;
insertion-order independence (same call on a re-shuffled construction of the same graph).
"""
from __future__ import annotations

import itertools as itt
import json
import random

from .. import common as C
from .. import forms as F
from .. import gen_graph as G

PROP = "C14"
RULE = ("five streams. (1) corpus of past witnesses. (1a) COUNTERFACTUAL receivers (tags cf_nodes, two_worlds_same_base, "
        "plain_beside_its_cf, cf_in_argument): a case of stream 2 or 3 (every operation but intervene) re-told over a node table "
        "in which a random subset of the nodes are CounterfactualVariables `X @ world` (up to four worlds, interventions on "
        "nodes and on a non-node; two nodes with the same base name in different worlds, `A01 @ -A00` and `A01 @ +A00`, and a "
        "plain `A01` beside them), built through the constructors that can name such nodes, the constructor check comparing full "
        "node identity. (1b) the same over the mixed-length / mixed-case name table gen_graph.MIXED_NAMES (tag names=mixed), str "
        "and Variable arguments of the constructors. "
        "Everywhere: after every graph-valued operation (and copy() in the eq_* cases) the ALIASING clause (tag alias_checked); "
        "a node collection handed over as list / tuple / one-shot iterable repeats an element with probability 0.12 (tags "
        "dup_in_S / dup_in_T); intervene also with interventions on variables that are not nodes, alone or mixed with members, "
        "and with +X and -X of one variable (tags intervene_foreign, intervene_both_signs); cyclic random graphs get a bidirected "
        "self-loop / a second directed self-loop with probability 0.08 each (tags bi_self_loop, di_self_loops); chain_* shapes "
        "(directed chains, caterpillars, joined chains of depth 5-9, up to 15 nodes, shuffled labels and insertion order: tags "
        "closure_depth, longest_path) for ancestors / descendants / topological_sort / pre / get_nodes_in_directed_paths. "
        "(2) STRUCTURED shapes, relabelled at random, embedded in random "
        "extra nodes/edges and inserted in several orders (tag `shape`): blanket_* (a child of a query node that is also a "
        "parent of another child / of another query node and has a further parent; shared children; 2-cycles), overlap_* "
        "(multi-node queries with overlapping neighbourhoods, every set-valued operation), order_* (one graph built in "
        "adversarial insertion orders: reverse topological edge order, nodes only introduced by edges, bidirected edges "
        "stored in either orientation), pre_* (explicit orders: linear extensions, arbitrary permutations, partial orders, "
        "orders with foreign or repeated names, first element in S, S disjoint from the order, empty order), paths_* "
        "(get_nodes_in_directed_paths on cycles with tails, figure-eights, self-loops, targets behind targets, S and T "
        "overlapping in both branches, unreachable targets, non-node arguments), district_* (get_district), eq_* (`__eq__`, the "
        "equality the property compares graphs with: a second construction of the same graph in another insertion order / "
        "through another constructor must compare equal, a graph that differs by ONE thing -- an edge-less node added, "
        "dropped or renamed, a directed / bidirected edge added, dropped, reversed, moved or changed into the other kind -- "
        "must not, in both argument orders; `!=`, a copy, a non-graph). "
        "(3) random mixed graphs (0-8 nodes; isolated nodes, bidirected-only nodes, parallel directed+bidirected pairs, "
        "cycles for the operations defined on them, random insertion order) x every operation x random node subsets "
        "(empty, all, partial, and non-members). "
        "quick: 5 000 counterfactual + 2 000 mixed-name + 30 000 structured + 34 000 random cases (thorough: 30 000 + 10 000 + "
        "100 000 + 200 000); when graph.py changed since integration the quick run also gets the "
        "exhaustive slice below (ESCALATED_TIER); "
        "thorough adds EVERY mixed graph without self-loops on 0..3 labelled nodes (1+1+8+512 graphs) x EVERY operation x "
        "every argument: all subsets S (all pairs S,T for get_nodes_in_directed_paths; every node and one non-node for "
        "get_district; for pre with an explicit order every S x every permutation of the node set and the empty order; "
        "for intervene every non-empty S with unstarred interventions) -- exhaustive for that slice; each such case is "
        "also re-run on one re-shuffled insertion order by the insertion-order oracle. "
        "A case is non-trivial when the graph has >=3 nodes, at least one edge of each kind present or an isolated node, "
        "and the argument set is neither empty nor everything.")
ASSUMPTIONS = [
    "argument FORMS (harness/forms.py): every call is made with the node set in one of the forms the signature allows, chosen deterministically per case and recorded as tags form_*: `Variable | Iterable[Variable]` parameters (subgraph, remove_*, ancestors/descendants_inclusive, get_markov_blanket, pre; sources/targets of get_nodes_in_directed_paths) as list / tuple / set / frozenset / dict keys / generator / iterator / map / a bare Variable for a one-element set; `Collection` / `set` parameters (get_markov_pillow, intervene) in the re-iterable forms only; an explicit topological order as list or tuple; the default order omitted / None / None by keyword; positional or keyword call; the receiver built through every public constructor (from_edges with lists / tuples / generators / iterators / sets, from_str_edges, from_adj, from_str_adj, from_latent_variable_dag, incremental add_* calls with str or Variable names) -- the constructors that change the insertion order only for the operations whose result does not depend on it. The model takes lists; independence of the form is a runtime clause decided by correspondence + oracle. A constructor that does not build the graph it was asked for is reported by the oracle as well",
    "clause 'the receiver is never modified' is a Python-runtime clause (R): decided by comparing nodes()/edges() of the receiver before and after every call, not by a theorem (the model is pure)",
    "clause 'returns a NEW graph' is a Python-runtime clause (R) as well: after every graph-valued operation (subgraph, remove_*, intervene, moralize, disorient; copy() in the eq_* cases) the harness checks that the result shares no component graph object with the receiver, then CHANGES the result (a fresh node, a directed and a bidirected edge to an old node, one edge of each kind removed) and requires the receiver's nodes()/edges() unchanged, then changes the receiver the same way and requires the result unchanged; a result that refuses changes (a frozen view) is judged by the second half only",
    "node identity: the model works on integers; the real graph is built through a per-case injective table int -> node whose nodes are plain Variables (two name tables) or CounterfactualVariables (same base name in several worlds). No operation of the property looks at names or sorts nodes, so the integer model is valid for every such table; that graph.py does not is decided by correspondence + oracle on the relabelled graph (a result node outside the table decodes to an atom no definition expects). intervene and to_latent_variable_dag are not defined on counterfactual graphs and are left out there",
    "intervene with interventions on variables that are not nodes: definition used by the oracle = every node gets the subscripts, exactly the directed edges into / bidirected edges at an intervened NODE are dropped. The empty set (no CounterfactualVariable without subscripts exists: ValueError unless the graph is empty) is compared with the model only; for +X together with -X of one variable the edges are judged (X is intervened whatever the sign), the subscripts of the nodes of such a contradictory world are not",
    "topological_sort / pre with the default order: the theorems say the result is a linear extension (resp. its prefix before the first member of S) for every insertion order, and that success does not depend on the insertion order; equality of the exact order with networkx is correspondence only",
    "intervene: node relabelling is modelled as a map f (injective for the edge characterisations); the harness decodes CounterfactualVariable nodes back to base names and checks their subscripts separately",
    "get_nodes_in_directed_paths: the definition proved and checked is 'nodes on simple directed paths with at least one edge from S to T' (nodesInDirectedPaths_spec, both implementations, after fix 2ae6e11). Arguments that are not nodes are outside the property's quantifier; what the code does with them (ignored on acyclic graphs, NodeNotFound on cyclic ones when both sets are non-empty) is stated by nodesInDirectedPaths_dag_spec / nodesInDirectedPaths_cyclic_error and compared by correspondence only",
    "theorems are about well-formed graphs (MG.WF: distinct nodes, distinct directed edges, edge endpoints are nodes), which is what from_edges guarantees (wf_fromEdges); graphs mutated behind the API are outside the claim",
]
EXHAUSTIVE = {"quick": False, "thorough": True}
ESCALATED_TIER = "escalated"   # quick tier when graph.py changed since integration: quick stream + the exhaustive slice
QUICK_RANDOM = 34000
QUICK_STRUCTURED = 30000
QUICK_CF = 5000
QUICK_NAMES = 2000
LEANCHECK_MODULES = ["Y0.Model.Graph", "Y0.Props.C14"]

OPS_SET = ["subgraph", "remove_in_edges", "remove_out_edges", "remove_nodes_from", "intervene",
           "ancestors_inclusive", "descendants_inclusive", "get_markov_pillow", "get_markov_blanket", "pre"]
OPS_NOARG = ["districts", "moralize", "disorient", "topological_sort"]
OPS = OPS_SET + OPS_NOARG + ["nodes_in_directed_paths", "pre_order", "get_district"]      # + "eq" (structured stream only)
CYCLIC_OK = {"subgraph", "remove_in_edges", "remove_out_edges", "remove_nodes_from", "intervene",
             "ancestors_inclusive", "descendants_inclusive", "get_markov_pillow", "get_markov_blanket",
             "districts", "moralize", "disorient", "topological_sort", "nodes_in_directed_paths", "get_district",
             "pre", "pre_order"}

CORPUS = [
    # F1 witness: A->B, B<->C ; remove_in_edges({B}) must keep A and C
    {"op": "remove_in_edges", "g": {"nodes": [], "di": [[0, 1]], "bi": [[1, 2]]}, "S": [1]},
    {"op": "remove_in_edges", "g": {"nodes": [3], "di": [[0, 2]], "bi": []}, "S": [0]},
    {"op": "subgraph", "g": {"nodes": [4], "di": [[0, 1], [1, 2]], "bi": [[0, 2]]}, "S": [0, 2, 4]},
    {"op": "districts", "g": {"nodes": [5], "di": [[0, 1]], "bi": [[1, 2], [3, 0]]}},
    {"op": "topological_sort", "g": {"nodes": [], "di": [[0, 1], [1, 2], [2, 0]], "bi": []}},
    {"op": "nodes_in_directed_paths", "g": {"nodes": [], "di": [[0, 1], [1, 2], [2, 1], [2, 3]], "bi": []}, "S": [0], "T": [3]},
    # witness of fix 2ae6e11: an unrelated cycle made f(G, {A}, {A}) return {A}; both must be empty
    {"op": "nodes_in_directed_paths", "g": {"nodes": [], "di": [[0, 1], [2, 3], [3, 2]], "bi": []}, "S": [0], "T": [0]},
    {"op": "nodes_in_directed_paths", "g": {"nodes": [], "di": [[0, 1], [2, 3]], "bi": []}, "S": [0], "T": [0]},
    {"op": "nodes_in_directed_paths", "g": {"nodes": [2], "di": [[0, 1], [1, 0]], "bi": []}, "S": [2], "T": [2]},
    # seeded change C14a (a child already in the blanket was skipped): N=0, C1=1, C2=2, W=3
    {"op": "get_markov_blanket", "g": {"nodes": [], "di": [[0, 1], [0, 2], [2, 1], [3, 2]], "bi": []}, "S": [0]},
    {"op": "get_markov_blanket", "g": {"nodes": [4, 6, 5, 3], "di": [[6, 3], [3, 4], [5, 3]], "bi": []}, "S": [6, 4]},
    # G14-1: two worlds of one base name (A01 @ -A00, A01 @ +A00) and the plain A01 beside them; an edge-less counterfactual node
    {"op": "subgraph", "g": {"nodes": [2], "di": [[0, 1], [1, 4]], "bi": [[1, 3]]}, "S": [1, 3, 4],
     "cf": {"1": {"iv": [[0, False]]}, "3": {"iv": [[0, True]], "base": 1}, "4": {"iv": [], "base": 1}}},
    {"op": "remove_nodes_from", "g": {"nodes": [1, 2], "di": [], "bi": []}, "S": [2], "cf": {"1": {"iv": [[0, False]]}}},
    {"op": "ancestors_inclusive", "g": {"nodes": [], "di": [[0, 1], [1, 2]], "bi": [[1, 3]]}, "S": [2],
     "cf": {"1": {"iv": [[0, False]]}, "2": {"iv": [[0, False]]}, "3": {"iv": [[0, True]], "base": 1}}},
    {"op": "districts", "g": {"nodes": [4], "di": [[0, 1]], "bi": [[1, 3], [3, 2]]},
     "cf": {"1": {"iv": [[0, False]]}, "3": {"iv": [[0, True]], "base": 1}, "2": {"iv": [[90, True]]}}},
    # G14-2: a result that shares structure with the receiver is only seen when one of the two is changed afterwards
    {"op": "moralize", "g": {"nodes": [3], "di": [[0, 2], [1, 2]], "bi": [[0, 3]]}},
    {"op": "remove_out_edges", "g": {"nodes": [], "di": [[0, 1], [1, 2]], "bi": [[0, 2]]}, "S": [1]},
    # G14-3: a node named twice in the collection
    {"op": "get_markov_pillow", "g": {"nodes": [], "di": [[0, 1], [2, 1], [3, 2]], "bi": []}, "S": [1, 1, 2], "forms": {"S": "list"}},
    {"op": "subgraph", "g": {"nodes": [3], "di": [[0, 1], [1, 2]], "bi": [[0, 2]]}, "S": [0, 2, 0], "forms": {"S": "tuple"}},
    {"op": "nodes_in_directed_paths", "g": {"nodes": [], "di": [[0, 1], [1, 2]], "bi": []}, "S": [0, 0], "T": [2, 2],
     "forms": {"S": "iterator", "T": "list"}},
    # G14-4: interventions on variables that are not nodes; both signs of one variable (correspondence only)
    {"op": "intervene", "g": {"nodes": [2], "di": [[0, 1]], "bi": [[0, 1]]}, "S": [90], "stars": [False]},
    {"op": "intervene", "g": {"nodes": [2], "di": [[0, 1]], "bi": [[0, 1]]}, "S": [1, 90], "stars": [True, False]},
    {"op": "intervene", "g": {"nodes": [], "di": [[0, 1], [1, 2]], "bi": [[0, 2]]}, "S": [1, 1], "stars": [True, False]},
    # G14-5 / G14-6: a chain of depth 7 in shuffled labels; a bidirected self-loop
    {"op": "ancestors_inclusive", "g": {"nodes": [], "di": [[5, 2], [3, 6], [0, 4], [2, 7], [4, 3], [7, 1], [6, 5]], "bi": []}, "S": [1]},
    {"op": "subgraph", "g": {"nodes": [], "di": [[0, 1], [1, 0]], "bi": [[1, 1], [0, 2]]}, "S": [1, 2]},
    # names of mixed length / case (M, Ma <-> zz, X; M0 edge-less)
    {"op": "remove_in_edges", "g": {"nodes": [13], "di": [[11, 12], [12, 14]], "bi": [[12, 30]]}, "S": [12], "names": "mixed"},
]


# ---------------------------------------------------------------------------------- structured generators
#
# A template is a small graph on symbolic nodes 0..k-1 (its directed edge list is in the insertion order that
# matters).  `_embed` relabels it injectively into 0..n-1 (so that name order, insertion order and topological
# order all differ), adds extra nodes and edges, and returns the graph dict plus the relabelling.

def _embed(rng, k, di, bi=(), extra=None, acyclic=True, keep_order=True, pd=0.25, pb=0.2):
    extra = rng.choice([0, 0, 1, 2, 3]) if extra is None else extra
    n = k + extra
    lab = list(range(n))
    rng.shuffle(lab)                       # symbolic node i -> label lab[i]
    # a linear order of all n symbolic nodes that extends the template's edges (when it is a DAG)
    pos = list(range(n))
    rng.shuffle(pos)
    if acyclic:
        # topological positions: repeatedly place a template source, extras anywhere
        indeg = {i: 0 for i in range(n)}
        for u, v in di:
            indeg[v] += 1
        avail = [i for i in range(n) if indeg[i] == 0]
        order = []
        left = [tuple(e) for e in di]
        while avail:
            x = avail.pop(rng.randrange(len(avail)))
            order.append(x)
            for (u, v) in [e for e in left if e[0] == x]:
                left.remove((u, v))
                indeg[v] -= 1
                if indeg[v] == 0:
                    avail.append(v)
        pos = {x: i for i, x in enumerate(order)}
    else:
        pos = {x: i for i, x in enumerate(pos)}
    tdi = [[lab[u], lab[v]] for u, v in di]
    tbi = [[lab[u], lab[v]] if rng.random() < 0.5 else [lab[v], lab[u]] for u, v in bi]
    have_d = {tuple(e) for e in tdi}
    have_b = {frozenset(e) for e in tbi}
    xdi, xbi = [], []
    for i in range(n):
        for j in range(n):
            if i == j or (i < k and j < k):
                continue                    # never change the template's own adjacency
            if (pos[i] < pos[j] or not acyclic) and rng.random() < pd and (lab[i], lab[j]) not in have_d:
                xdi.append([lab[i], lab[j]])
                have_d.add((lab[i], lab[j]))
            if i < j and rng.random() < pb and frozenset((lab[i], lab[j])) not in have_b:
                xbi.append([lab[i], lab[j]])
                have_b.add(frozenset((lab[i], lab[j])))
    if keep_order:
        # template edges first, in template order (what the shape is about); extras spliced around them at random
        alldi = list(tdi)
        for e in xdi:
            alldi.insert(rng.choice([0, len(alldi)]), e)
    else:
        alldi = tdi + xdi
        rng.shuffle(alldi)
    allbi = tbi + xbi
    rng.shuffle(allbi)
    nodes = [lab[i] for i in range(n)]
    rng.shuffle(nodes)
    mode = rng.random()
    if mode < 0.35:
        touched = {x for e in alldi + allbi for x in e}
        nodes = [v for v in nodes if v not in touched]     # nodes introduced by edges only
    elif mode < 0.5:
        nodes = sorted(nodes, reverse=True)
    return {"nodes": nodes, "di": alldi, "bi": allbi}, lab


def _sub(rng, xs, p=0.5):
    return [x for x in xs if rng.random() < p]


def _shape_blanket(rng):
    """get_markov_blanket / pillow shapes: a child of a query node that is already in the blanket when visited"""
    v = rng.choice(["child_is_coparent", "child_is_coparent_rev", "child_is_parent_of_query", "shared_child",
                    "two_cycle", "chain_of_children", "child_in_query"])
    N, C1, C2, W, M = 0, 1, 2, 3, 4
    acyclic = True
    if v == "child_is_coparent":          # N->C1 before N->C2, C2->C1, W->C2 : C2 enters the blanket as parent of C1
        k, di, q = 4, [(N, C1), (N, C2), (C2, C1), (W, C2)], [N]
    elif v == "child_is_coparent_rev":    # same graph, the other insertion order
        k, di, q = 4, [(W, C2), (C2, C1), (N, C2), (N, C1)], [N]
    elif v == "child_is_parent_of_query":  # query {M, N}: C2 -> M, N -> C2, W -> C2
        k, di, q = 5, [(C2, M), (N, C2), (W, C2)], [M, N]
    elif v == "shared_child":             # N -> C1 <- M, W -> C1, C1 -> C2 <- N
        k, di, q = 5, [(N, C1), (M, C1), (W, C1), (C1, C2), (N, C2)], [N, M]
    elif v == "two_cycle":                # N <-> C2 as two directed edges, W -> C2
        k, di, q, acyclic = 4, [(C2, N), (N, C2), (W, C2), (N, C1)], [N], False
    elif v == "chain_of_children":        # N -> C1 -> C2, N -> C2, W -> C2, M -> C1
        k, di, q = 5, [(N, C1), (C1, C2), (N, C2), (W, C2), (M, C1)], [N]
    else:                                 # a child that is itself queried: N -> C1, C1 -> C2, W -> C1, M -> C2
        k, di, q = 5, [(N, C1), (C1, C2), (W, C1), (M, C2)], [N, C1]
    g, lab = _embed(rng, k, di, bi=_sub(rng, [(N, W), (C1, C2)], 0.3), acyclic=acyclic,
                    keep_order=rng.random() < 0.7)
    S = [lab[x] for x in q]
    if rng.random() < 0.25:               # enlarge the query by a random other node
        S.append(rng.choice(G.all_nodes(g)))
        S = list(dict.fromkeys(S))
    rng.shuffle(S)
    op = rng.choice(["get_markov_blanket"] * 4 + ["get_markov_pillow"])
    return {"op": op, "g": g, "S": S, "shape": "blanket_" + v}


def _shape_overlap(rng):
    """multi-node queries with overlapping neighbourhoods, every operation that takes a node set"""
    A, B, P, C, D = 0, 1, 2, 3, 4
    v = rng.choice(["common_parent", "parent_in_query", "common_child", "bidirected_pair", "diamond"])
    if v == "common_parent":
        di, bi = [(P, A), (P, B), (A, C)], [(A, B)]
    elif v == "parent_in_query":
        di, bi = [(A, B), (P, A), (B, C), (P, C)], [(B, C)]
    elif v == "common_child":
        di, bi = [(A, C), (B, C), (P, C), (C, D)], [(A, D)]
    elif v == "bidirected_pair":
        di, bi = [(P, A), (B, C)], [(A, B), (B, P), (C, D)]
    else:
        di, bi = [(P, A), (P, B), (A, C), (B, C), (C, D)], [(A, B), (P, D)]
    g, lab = _embed(rng, 5, di, bi=bi, keep_order=rng.random() < 0.5)
    S = [lab[A], lab[B]] + ([lab[rng.choice([P, C, D])]] if rng.random() < 0.3 else [])
    rng.shuffle(S)
    op = rng.choice(OPS_SET)
    c = {"op": op, "g": g, "S": S, "shape": "overlap_" + v}
    if op == "intervene":
        c["stars"] = [rng.random() < 0.5 for _ in S]
    return c


def _shape_order(rng):
    """one random graph, adversarial insertion orders; every operation"""
    op = rng.choice(OPS_SET + OPS_NOARG + ["get_district"])
    g0 = G.rand_graph(rng, 3, 7, acyclic=rng.random() < 0.8 or op in ("pre",))
    nodes = G.all_nodes(g0)
    v = rng.choice(["reverse_edges", "nodes_by_edges_only", "nodes_reversed", "bi_flipped", "sorted_everything"])
    g = {"nodes": list(g0["nodes"]), "di": [list(e) for e in g0["di"]], "bi": [list(e) for e in g0["bi"]]}
    if v == "reverse_edges":
        g["di"].reverse()
        g["bi"].reverse()
    elif v == "nodes_by_edges_only":
        touched = {x for e in g["di"] + g["bi"] for x in e}
        g["nodes"] = [x for x in nodes if x not in touched]
    elif v == "nodes_reversed":
        g["nodes"] = sorted(nodes, reverse=True)
    elif v == "bi_flipped":
        g["bi"] = [[e[1], e[0]] for e in g["bi"]]
    else:
        g["nodes"] = sorted(nodes)
        g["di"] = sorted(g["di"])
        g["bi"] = sorted(sorted(e) for e in g["bi"])
    c = {"op": op, "g": g, "shape": "order_" + v}
    if op in OPS_SET:
        c["S"] = G.rand_subset(rng, nodes, p=rng.choice([0.2, 0.5, 0.8]))
    if op == "intervene":
        c["stars"] = [rng.random() < 0.5 for _ in c["S"]]
    if op == "get_district":
        c["v"] = rng.choice(nodes)
    return c


def _linear_extension(rng, g):
    nodes = G.all_nodes(g)
    indeg = {x: 0 for x in nodes}
    for u, w in g["di"]:
        indeg[w] += 1
    avail = [x for x in nodes if indeg[x] == 0]
    out = []
    while avail:
        x = avail.pop(rng.randrange(len(avail)))
        out.append(x)
        for u, w in g["di"]:
            if u == x:
                indeg[w] -= 1
                if indeg[w] == 0:
                    avail.append(w)
    return out


def _shape_pre(rng):
    g = G.rand_graph(rng, 2, 7, acyclic=True)
    nodes = G.all_nodes(g)
    ext = _linear_extension(rng, g)
    v = rng.choice(["linear_extension", "permutation", "partial", "first_in_S", "S_disjoint", "foreign_names",
                    "repeated_names", "empty_order", "default", "default_no_member", "S_outside_graph"])
    S = G.rand_subset(rng, nodes, p=rng.choice([0.2, 0.4]))
    order = list(ext)
    op = "pre_order"
    if v == "permutation":
        rng.shuffle(order)
    elif v == "partial":
        order = [x for x in ext if rng.random() < 0.6]
    elif v == "first_in_S":
        S = list(dict.fromkeys(S + [order[0]]))
    elif v == "S_disjoint":
        order = [x for x in ext if x not in S]
    elif v == "foreign_names":
        order = list(ext)
        order.insert(rng.randrange(len(order) + 1), 90)
        if rng.random() < 0.5:
            S = S + [90]
    elif v == "repeated_names":
        order = ext + [rng.choice(ext)]
        rng.shuffle(order)
    elif v == "empty_order":
        order = []
    elif v == "default":
        op = "pre"
    elif v == "default_no_member":
        op, S = "pre", []
    elif v == "S_outside_graph":
        op, S = rng.choice(["pre", "pre_order"]), S + [91]
    c = {"op": op, "g": g, "S": S, "shape": "pre_" + v}
    if op == "pre_order":
        c["order"] = order
    return c


def _shape_paths(rng):
    """get_nodes_in_directed_paths: cyclic graphs, overlapping S and T, trivial paths, non-node arguments"""
    a, b, c_, d, e = 0, 1, 2, 3, 4
    v = rng.choice(["cycle_with_tail", "figure_eight", "self_loop_on_path", "target_behind_target", "S_meets_T_dag",
                    "S_meets_T_cyclic", "s_equals_t_on_cycle", "unreachable_target", "non_node_dag", "non_node_cyclic",
                    "empty_side_cyclic", "two_routes_dag", "back_edge_into_source"])
    acyclic = False
    if v == "cycle_with_tail":            # a -> b -> c -> b, c -> d
        k, di, S, T = 4, [(a, b), (b, c_), (c_, b), (c_, d)], [a], [d]
    elif v == "figure_eight":             # two cycles through c
        k, di, S, T = 5, [(a, c_), (c_, b), (b, c_), (c_, d), (d, c_), (d, e)], [a], [e]
    elif v == "self_loop_on_path":
        k, di, S, T = 3, [(a, b), (b, b), (b, c_)], [a], [c_]
    elif v == "target_behind_target":     # a -> b -> c, both b and c targets; cyclic or not
        acyclic = rng.random() < 0.5
        k, di, S, T = 4, [(a, b), (b, c_), (d, a)] + ([] if acyclic else [(c_, d)]), [a], [b, c_]
    elif v == "S_meets_T_dag":            # S and T share b: the acyclic branch ignores the trivial path
        acyclic = True
        k, di, S, T = 4, [(a, b), (b, c_), (d, c_)], [a, b], [b, c_] if rng.random() < 0.5 else [b]
    elif v == "S_meets_T_cyclic":         # the cyclic branch returns the shared node as a trivial path
        k, di, S, T = 4, [(a, b), (b, a), (c_, d)], [c_, a], [c_] if rng.random() < 0.5 else [c_, b]
    elif v == "s_equals_t_on_cycle":
        k, di, S, T = 3, [(a, b), (b, c_), (c_, a)], [a], [a]
    elif v == "unreachable_target":
        acyclic = rng.random() < 0.5
        k, di, S, T = 4, [(a, b), (c_, d)] + ([] if acyclic else [(b, a)]), [a], [d]
    elif v == "non_node_dag":
        acyclic = True
        k, di, S, T = 3, [(a, b), (b, c_)], [a, 90], [c_] if rng.random() < 0.5 else [c_, 91]
    elif v == "non_node_cyclic":
        k, di, S, T = 3, [(a, b), (b, a), (b, c_)], [a] + ([90] if rng.random() < 0.5 else []), [c_, 91]
    elif v == "empty_side_cyclic":        # product of the argument sets is empty: no lookup, no NodeNotFound
        k, di = 3, [(a, b), (b, a), (b, c_)]
        S, T = ([], [91, c_]) if rng.random() < 0.5 else ([90], [])
    elif v == "two_routes_dag":
        acyclic = True
        k, di, S, T = 5, [(a, b), (b, d), (a, c_), (c_, d), (d, e)], [a], [d, e]
    else:                                 # back_edge_into_source: t -> s closes a cycle through the source
        k, di, S, T = 4, [(a, b), (b, c_), (c_, a), (b, d)], [a], [d]
    g, lab = _embed(rng, k, di, acyclic=acyclic, keep_order=rng.random() < 0.5, extra=rng.choice([0, 0, 1, 2]),
                    pd=0.2, pb=0.1)
    m = lambda xs: [lab[x] if x < 90 else x for x in xs]  # noqa: E731
    return {"op": "nodes_in_directed_paths", "g": g, "S": m(S), "T": m(T), "shape": "paths_" + v}


def _shape_district(rng):
    g = G.rand_graph(rng, 1, 7, acyclic=rng.random() < 0.7, pb=rng.choice([0.15, 0.3, 0.5]))
    nodes = G.all_nodes(g)
    v = rng.choice(["member", "member", "isolated", "non_node"])
    iso = [x for x in nodes if x not in {y for e in g["di"] + g["bi"] for y in e}]
    if v == "isolated" and iso:
        x = rng.choice(iso)
    elif v == "non_node":
        x = 90
    else:
        v, x = "member", rng.choice(nodes)
    return {"op": "get_district", "g": g, "v": x, "shape": "district_" + v}


def _shape_eq(rng):
    """NxMixedGraph.__eq__ (graph.py:85-92, 'equality used to compare graphs'): g against a second graph h that is the
    same graph built differently, or differs from it in exactly one thing"""
    g = G.rand_graph(rng, 0, 6, acyclic=rng.random() < 0.7, pb=rng.choice([0.0, 0.2, 0.4]))
    v = rng.choice(["same", "same", "same_no_node_list", "add_isolated", "drop_isolated", "rename_isolated", "add_di", "drop_di",
                    "flip_di", "di_to_bi", "bi_to_di", "add_bi", "drop_bi", "move_bi", "move_di", "rename_node"])
    # give g what the variant needs (an edge-less node, two nodes, an edge of the kind that is changed)
    nodes = G.all_nodes(g)
    if v != "same" and len(nodes) < 2:
        g["nodes"] = g["nodes"] + [x for x in (max(nodes, default=-1) + 1, max(nodes, default=-1) + 2)][:2 - len(nodes)]
        nodes = G.all_nodes(g)
    touched = {x for e in g["di"] + g["bi"] for x in e}
    if v in ("drop_isolated", "rename_isolated") and not set(nodes) - touched:
        g["nodes"] = g["nodes"] + [max(nodes) + 1]
    if v in ("drop_di", "flip_di", "di_to_bi", "move_di") and not g["di"]:
        g["di"] = [rng.sample(nodes, 2)]
    if v in ("drop_bi", "bi_to_di", "move_bi") and not g["bi"]:
        g["bi"] = [rng.sample(nodes, 2)]
    nodes = G.all_nodes(g)
    h = G.shuffled(rng, g)
    touched = {x for e in g["di"] + g["bi"] for x in e}
    iso = [x for x in nodes if x not in touched]
    fresh = max(nodes, default=-1) + 1 + rng.randrange(3)
    di_set = {tuple(e) for e in g["di"]}
    bi_set = {frozenset(e) for e in g["bi"]}
    pairs = [(a, b) for a in nodes for b in nodes if a != b]

    def fallback():
        h["nodes"] = h["nodes"] + [fresh]
        return "add_isolated"
    if v == "same":
        pass
    elif v == "same_no_node_list":
        h["nodes"] = [x for x in h["nodes"] if x not in touched]
    elif v == "add_isolated":
        h["nodes"].insert(rng.randrange(len(h["nodes"]) + 1), fresh)
    elif v == "drop_isolated":
        if iso:
            x = rng.choice(iso)
            h["nodes"] = [y for y in h["nodes"] if y != x]
        else:
            v = fallback()
    elif v == "rename_isolated":
        if iso:
            x = rng.choice(iso)
            h["nodes"] = [fresh if y == x else y for y in h["nodes"]]
        else:
            v = fallback()
    elif v == "rename_node":
        if nodes:
            x = rng.choice(nodes)
            f = lambda y: fresh if y == x else y  # noqa: E731
            h = {"nodes": [f(y) for y in h["nodes"]], "di": [[f(a), f(b)] for a, b in h["di"]], "bi": [[f(a), f(b)] for a, b in h["bi"]]}
        else:
            v = fallback()
    elif v in ("add_di", "add_bi"):
        free = [p for p in pairs if (p not in di_set if v == "add_di" else frozenset(p) not in bi_set)]
        if free:
            h["di" if v == "add_di" else "bi"].append(list(rng.choice(free)))
        else:
            v = fallback()
    elif v in ("drop_di", "flip_di", "di_to_bi", "move_di"):
        if h["di"]:
            k = rng.randrange(len(h["di"]))
            a, b = h["di"][k]
            if v == "drop_di":
                del h["di"][k]
            elif v == "flip_di":
                if (b, a) in di_set or a == b:
                    del h["di"][k]
                    v = "drop_di"
                else:
                    h["di"][k] = [b, a]
            elif v == "di_to_bi":
                del h["di"][k]
                if frozenset((a, b)) not in bi_set:
                    h["bi"].append([a, b])
            else:
                free = [p for p in pairs if p not in di_set]
                if free:
                    h["di"][k] = list(rng.choice(free))
                else:
                    del h["di"][k]
        else:
            v = fallback()
    else:   # drop_bi, bi_to_di, move_bi
        if h["bi"]:
            k = rng.randrange(len(h["bi"]))
            a, b = h["bi"][k]
            del h["bi"][k]
            if v == "bi_to_di" and (a, b) not in di_set:
                h["di"].append([a, b])
            elif v == "move_bi":
                free = [p for p in pairs if frozenset(p) not in bi_set]
                if free:
                    h["bi"].append(list(rng.choice(free)))
        else:
            v = fallback()
    if rng.random() < 0.5:
        g, h = h, g          # the changed graph on either side of ==
    return {"op": "eq", "g": g, "h": h, "shape": "eq_" + v}


STRUCTURED = [(_shape_blanket, 5), (_shape_overlap, 4), (_shape_order, 3), (_shape_pre, 3), (_shape_paths, 4),
              (_shape_district, 1), (_shape_eq, 2), (lambda rng: _shape_chain(rng), 2)]


def _random_case(rng):
    op = rng.choice(OPS)
    acyclic = not (op in CYCLIC_OK and rng.random() < 0.3)
    g = G.rand_graph(rng, 0, 8 if op != "nodes_in_directed_paths" else 6, acyclic=acyclic)
    nodes = G.all_nodes(g)
    c = {"op": op, "g": g}
    if op in OPS_SET or op == "pre_order":
        c["S"] = G.rand_subset(rng, nodes, allow_outside=0.08)
    if op == "nodes_in_directed_paths":
        c["S"] = G.rand_subset(rng, nodes, p=rng.choice([0.2, 0.4]), allow_outside=0.03)
        c["T"] = G.rand_subset(rng, nodes, p=rng.choice([0.2, 0.4]), allow_outside=0.03)
    if op == "pre_order":
        o = list(nodes)
        rng.shuffle(o)
        c["order"] = o if rng.random() < 0.9 else []
    if op == "intervene":
        # interventions need not name nodes (`variables: set[Intervention]`): members, foreign names, both mixed
        r = rng.random()
        if r < 0.7:
            c["S"] = [v for v in c["S"] if v in nodes]
        elif r < 0.8:
            c["S"] = [v for v in c["S"] if v not in nodes] or [rng.choice(FOREIGN)]
        elif 90 not in c["S"] and 91 not in c["S"]:
            c["S"] = c["S"] + [rng.choice(FOREIGN)]
            rng.shuffle(c["S"])
        c["stars"] = [rng.random() < 0.5 for _ in c["S"]]
        if c["S"] and rng.random() < 0.2:      # +X and -X of one variable
            k = rng.randrange(len(c["S"]))
            c["S"].append(c["S"][k])
            c["stars"].append(not c["stars"][k])
    if op == "get_district":
        c["v"] = rng.choice(nodes) if nodes and rng.random() < 0.9 else 90
    if not acyclic and nodes and op != "eq":
        # bidirected self-loops (legal for add_undirected_edge / nx.Graph), a second directed self-loop
        if rng.random() < 0.08:
            g["bi"].insert(rng.randrange(len(g["bi"]) + 1), [rng.choice(nodes)] * 2)
        if rng.random() < 0.08:
            for v in rng.sample(nodes, min(2, len(nodes))):
                if [v, v] not in g["di"]:
                    g["di"].insert(rng.randrange(len(g["di"]) + 1), [v, v])
    c["shape"] = "random"
    return c


def _shape_chain(rng):
    """long directed chains / trees (depth 5-9), labels and insertion order shuffled: closures, topological order, paths"""
    op = rng.choice(["ancestors_inclusive", "descendants_inclusive", "topological_sort", "pre", "pre_order",
                     "nodes_in_directed_paths", "ancestors_inclusive", "descendants_inclusive"])
    depth = rng.randint(5, 9)
    k = depth + 1
    di = [(i, i + 1) for i in range(depth)]
    v = rng.choice(["chain", "chain", "chain_with_shortcuts", "caterpillar", "two_chains_joined"])
    if v == "chain_with_shortcuts":
        di += [(i, j) for i in range(k) for j in range(i + 2, k) if rng.random() < 0.15]
    elif v == "caterpillar":          # every spine node gets a leaf child or a leaf parent
        for i in range(depth):
            if rng.random() < 0.5 and k < 14:
                di.append((i, k) if rng.random() < 0.5 else (k, i))
                k += 1
    elif v == "two_chains_joined":    # a second chain that enters the first one in the middle
        m = rng.randint(2, 4)
        di += [(k + i, k + i + 1) for i in range(m - 1)] + [(k + m - 1, rng.randrange(1, depth))]
        k += m
    rng.shuffle(di) if rng.random() < 0.5 else (di.reverse() if rng.random() < 0.5 else None)
    g, lab = _embed(rng, k, di, bi=_sub(rng, [(0, depth), (1, 3)], 0.3), acyclic=True, keep_order=rng.random() < 0.5,
                    extra=rng.choice([0, 0, 1, 2]), pd=0.08, pb=0.08)
    ends = [lab[0], lab[depth]]
    c = {"op": op, "g": g, "shape": "chain_" + v}
    if op == "ancestors_inclusive":
        c["S"] = [lab[depth]] if rng.random() < 0.6 else [lab[rng.randrange(depth // 2, k)], lab[depth]]
    elif op == "descendants_inclusive":
        c["S"] = [lab[0]] if rng.random() < 0.6 else [lab[0], lab[rng.randrange(0, depth // 2 + 1)]]
    elif op in ("pre", "pre_order"):
        c["S"] = [lab[rng.randrange(depth - 1, depth + 1)]] if rng.random() < 0.7 else []
        if op == "pre_order":
            c["order"] = _linear_extension(rng, g) if rng.random() < 0.8 else []
    elif op == "nodes_in_directed_paths":
        c["S"], c["T"] = ([ends[0]], [ends[1]]) if rng.random() < 0.7 else ([ends[0], lab[1]], [lab[depth - 1], ends[1]])
    if "S" in c:
        c["S"] = list(dict.fromkeys(c["S"]))
    return c


# ---------------------------------------------------------------------------------- other node tables (G14-1, names)

def _draw_base(rng):
    """a case of the structured or the random stream, for the streams that re-tell it over another node table"""
    gens = [f for f, w in STRUCTURED for _ in range(w)]
    return rng.choice(gens)(rng) if rng.random() < 0.5 else _random_case(rng)


def _ints_of(c):
    out = set()
    for key in ("g", "h"):
        if key in c:
            out.update(G.all_nodes(c[key]))
    return sorted(out)


def _cf_case(rng):
    """a case whose receiver has COUNTERFACTUAL nodes (what id_star / idc_star / cg.py hand to subgraph, districts,
    ancestors_inclusive ...): a random subset of the nodes becomes `X @ world` for one of up to three worlds; two nodes
    may share a base name in different worlds (`A01 @ -A00`, `A01 @ +A00`), a plain variable of that name beside them.
    intervene is left out: it is not defined on such graphs (TypeError / extends the subscripts)."""
    while True:
        c = _draw_base(rng)
        nodes = _ints_of(c)
        if c["op"] != "intervene" and nodes:
            break
    pool = nodes + [90]
    j, k = rng.choice(pool), rng.choice(pool)
    worlds = [[[j, False]], [[j, True]]] + ([[[j, False], [k, True]]] if k != j else []) + [[[k, rng.random() < 0.5]]]
    p = rng.choice([0.3, 0.6, 1.0])
    cf = {}
    for i in nodes:
        if rng.random() < p:
            cf[str(i)] = {"iv": rng.choice(worlds)}
    if not cf:
        cf[str(rng.choice(nodes))] = {"iv": worlds[0]}
    if len(nodes) >= 2 and rng.random() < 0.6:
        # the same base name in two worlds (and, sometimes, as a plain variable too)
        a, b = rng.sample(nodes, 2)
        cf[str(a)] = {"iv": worlds[0]}
        cf[str(b)] = {"iv": worlds[1], "base": a}
        rest = [x for x in nodes if x not in (a, b)]
        if rest and rng.random() < 0.5:
            cf[str(rng.choice(rest))] = {"iv": [], "base": a}
    c["cf"] = cf
    c["shape"] = "cf_" + c.get("shape", "random")
    return c


def _mixed_names_case(rng):
    """the same streams over the name table gen_graph.MIXED_NAMES (one-letter names beside `X10`, `X_1`, `aB`): the graph's
    integers are spread over the table by a random increasing map"""
    while True:
        c = _draw_base(rng)
        nodes = _ints_of(c)
        if len(nodes) <= len(G.MIXED_NAMES):
            break
    tgt = sorted(rng.sample(range(len(G.MIXED_NAMES)), len(nodes)))
    m = dict(zip(nodes, tgt))
    f = lambda x: m.get(x, x)  # noqa: E731   (90 / 91 stay the non-members)
    for key in ("g", "h"):
        if key in c:
            x = c[key]
            c[key] = {"nodes": [f(v) for v in x["nodes"]], "di": [[f(a), f(b)] for a, b in x["di"]],
                      "bi": [[f(a), f(b)] for a, b in x["bi"]]}
    for key in ("S", "T", "order"):
        if key in c:
            c[key] = [f(v) for v in c[key]]
    if "v" in c:
        c["v"] = f(c["v"])
    c["names"] = "mixed"
    c["shape"] = "names_" + c.get("shape", "random")
    return c


def _exhaustive_small():
    """every mixed graph without self-loops on 0..3 labelled nodes x every operation x every argument"""
    out = []
    for k in (0, 1, 2, 3):
        subsets = [list(S) for r in range(k + 1) for S in itt.combinations(range(k), r)]
        perms = [list(o) for o in itt.permutations(range(k))]
        for g in G.enumerate_graphs(k, cyclic=True):
            for op in OPS_SET:
                for S in subsets:
                    if op == "intervene":
                        if S:
                            out.append({"op": op, "g": g, "S": S, "stars": [False] * len(S)})
                    else:
                        out.append({"op": op, "g": g, "S": S})
            for op in OPS_NOARG:
                out.append({"op": op, "g": g})
            for S in subsets:
                for T in subsets:
                    out.append({"op": "nodes_in_directed_paths", "g": g, "S": S, "T": T})
                for o in perms + ([[]] if k else []):
                    out.append({"op": "pre_order", "g": g, "S": S, "order": o})
            for v in list(range(k)) + [90]:
                out.append({"op": "get_district", "g": g, "v": v})
    for c in out:
        c["shuffle_seed"] = 1
        c["shape"] = "exhaustive3"
    return out


ITER_OPS = ("subgraph", "remove_in_edges", "remove_out_edges", "remove_nodes_from", "ancestors_inclusive",
            "descendants_inclusive", "get_markov_blanket", "pre", "pre_order", "nodes_in_directed_paths")
KW = {"subgraph": "vertices", "remove_in_edges": "vertices", "remove_out_edges": "vertices", "remove_nodes_from": "vertices",
      "ancestors_inclusive": "sources", "descendants_inclusive": "sources", "get_markov_pillow": "nodes",
      "get_markov_blanket": "nodes", "intervene": "variables", "get_district": "node"}


def _slots(case):
    """the argument forms that are legal for this case (read off the signatures in graph.py)"""
    op = case["op"]
    same, anyo = (CF_CTORS_SAME_ORDER, CF_CTORS) if case.get("cf") else (F.CTORS_SAME_ORDER, F.CTORS)
    if op == "eq":
        return {"ctor": anyo, "ctor_h": anyo}
    order_matters = op in ORDER_FREE or (op == "pre_order" and not case.get("order"))
    sl = {"ctor": same if order_matters else anyo, "call": ("positional", "keyword")}
    if op in ITER_OPS:
        sl["S"] = F.CONTAINERS + (F.SINGLE, F.SINGLE)       # Variable | Iterable[Variable]
    elif op in ("get_markov_pillow", "intervene"):
        sl["S"] = F.REITERABLE                              # Collection[Variable] / set[Intervention]
    if op == "nodes_in_directed_paths":
        sl["T"] = F.CONTAINERS + (F.SINGLE, F.SINGLE)
    if op == "pre_order":
        sl["order"] = F.SEQUENCES                           # Sequence[Variable]
    if op == "pre":
        sl["default_order"] = ("omitted", "none", "none_keyword")
    return sl


def _forms(case):
    return F.forms_of(case, _slots(case))


DUP_FORMS = ("list", "tuple") + F.ONE_SHOT


def _assign(c):
    """derive the forms of a case; forms a corpus witness was written with (and that are legal) are kept"""
    rec = dict(c.get("forms") or {})
    sl = _slots(c)
    F.assign(c, sl)
    c["forms"].update({k: v for k, v in rec.items() if k in sl and v in sl[k]})
    return c


def cases(rng: random.Random, tier: str):
    out = [_assign(c) for c in _cases(rng, tier)]
    # G14-3: a node collection may name an element twice.  Decided AFTER the forms are fixed (they stay as recorded), for
    # the forms that hand a repetition over (list / tuple / generator / iterator / map)
    rng2 = random.Random(rng.randrange(1 << 30))
    for c in out:
        if c.get("shape") in ("corpus", "exhaustive3") or c["op"] in ("intervene", "eq"):
            continue
        for k in ("S", "T"):
            if c.get(k) and c["forms"].get(k) in DUP_FORMS and rng2.random() < 0.12:
                xs = list(c[k])
                for _ in range(rng2.choice([1, 1, 2])):
                    xs.insert(rng2.randrange(len(xs) + 1), rng2.choice(c[k]))
                c[k] = xs
    return out


def _cases(rng: random.Random, tier: str):
    out = [dict(json.loads(json.dumps(c)), shape="corpus") for c in CORPUS]
    n_struct, n_rand = {"thorough": (100000, 200000), "escalated": (QUICK_STRUCTURED, QUICK_RANDOM // 4)}.get(
        tier, (QUICK_STRUCTURED, QUICK_RANDOM))
    n_cf, n_names = {"thorough": (30000, 10000)}.get(tier, (QUICK_CF, QUICK_NAMES))
    for gen, n in ((_cf_case, n_cf), (_mixed_names_case, n_names)):
        for _ in range(n):
            c = gen(rng)
            c["shuffle_seed"] = rng.randrange(1 << 30)
            out.append(c)
    gens = [f for f, w in STRUCTURED for _ in range(w)]
    for _ in range(n_struct):
        c = rng.choice(gens)(rng)
        c["shuffle_seed"] = rng.randrange(1 << 30)
        out.append(c)
    for _ in range(n_rand):
        c = _random_case(rng)
        c["shuffle_seed"] = rng.randrange(1 << 30)
        out.append(c)
    if tier in ("thorough", "escalated"):
        out += _exhaustive_small()
    return out


# ------------------------------------------------------------------------------------------ node codec
#
# Cases live in integer space (that is what the model and the oracle see).  The REAL graph is built through a per-case,
# injective table int -> node:
#   * case["names"] == "mixed": the order-preserving table gen_graph.MIXED_NAMES (names of mixed length / case) instead of
#     A00..A99; integers beyond it (the non-member arguments 90, 91) become zzz90, zzz91;
#   * case["cf"] = {str(i): {"iv": [[j, star], ...], "base": k}}: node i is the CounterfactualVariable
#     `Variable(name(k or i)) @ {Intervention(name(j), star), ...}`; `"iv": []` with a base is the plain Variable of
#     another node's name.  So `A01 @ -A00`, `A01 @ +A00` and the plain `A01` can be three different nodes of one graph.
# Results are decoded through the inverse table; a node the table does not know (e.g. a counterfactual node that some
# operation normalised to its base variable) decodes to a `?repr` atom, which no definition ever expects.

FOREIGN = (90, 91)


def _name_fn(case):
    if case.get("names") == "mixed":
        return lambda i: G.MIXED_NAMES[i] if i < len(G.MIXED_NAMES) else f"zzz{i}"
    return G.vname


class Codec:
    def __init__(self, case):
        from y0.dsl import CounterfactualVariable, Intervention, Variable

        self.name = _name_fn(case)
        self.cf = case.get("cf") or {}
        self.plain = not self.cf
        ints = set(FOREIGN)
        for key in ("g", "h"):
            if key in case:
                ints.update(G.all_nodes(case[key]))
        for key in ("S", "T", "order"):
            ints.update(case.get(key) or [])
        if "v" in case:
            ints.add(case["v"])
        self._enc = {}
        for i in sorted(ints):
            spec = self.cf.get(str(i))
            if spec is None:
                node = Variable(self.name(i))
            else:
                base = self.name(spec.get("base", i))
                ivs = frozenset(Intervention(name=self.name(j), star=bool(st)) for j, st in spec["iv"])
                node = CounterfactualVariable(name=base, star=None, interventions=ivs) if ivs else Variable(base)
            self._enc[i] = node
        self._dec = {v: k for k, v in self._enc.items()}
        if len(self._dec) != len(self._enc):
            raise ValueError("node table of the case is not injective")     # a generator bug, never a verdict
        self._by_name = {}
        for k, v in self._enc.items():
            self._by_name.setdefault(v.name, k)

    def enc(self, i):
        return self._enc[i]

    def dec(self, node):
        """int of a node of the table; anything else becomes an atom that names the stranger"""
        try:
            if node in self._dec and type(node) is type(self._enc[self._dec[node]]):
                return self._dec[node]
        except TypeError:
            pass
        return "?" + repr(node)

    def dec_base(self, node):
        """for the nodes `intervene` returns: the int of the base variable (subscripts are checked separately)"""
        return self._by_name.get(getattr(node, "name", None), "?" + repr(node))


# constructors that can take counterfactual nodes (the `str` constructors cannot name them)
CF_CTORS_SAME_ORDER = ("from_edges", "from_edges_positional_tuples", "from_edges_generators", "incremental", "incremental_str_plain")
CF_CTORS = CF_CTORS_SAME_ORDER + ("from_edges_sets", "from_adj", "incremental_shuffled")


def _build_cf(g, ctor, seed, cd):
    """NxMixedGraph of the graph dict through the table of the case, for tables with counterfactual nodes"""
    from y0.dsl import Variable
    from y0.graph import NxMixedGraph

    V = cd.enc
    rng = random.Random(F.crc("graph-cf", seed, ctor))
    nodes, di, bi = list(g["nodes"]), [tuple(e) for e in g["di"]], [tuple(e) for e in g["bi"]]
    vn = [V(i) for i in nodes]
    vd = [(V(u), V(v)) for u, v in di]
    vb = [(V(u), V(v)) for u, v in bi]
    if ctor == "from_edges":
        return NxMixedGraph.from_edges(nodes=vn, directed=vd, undirected=vb)
    if ctor == "from_edges_positional_tuples":
        return NxMixedGraph.from_edges(tuple(vn), tuple(vd), tuple(vb))
    if ctor == "from_edges_generators":
        return NxMixedGraph.from_edges(nodes=(v for v in vn), directed=iter(vd), undirected=map(lambda e: e, vb))
    if ctor == "from_edges_sets":
        return NxMixedGraph.from_edges(nodes=frozenset(vn), directed=set(vd), undirected=dict.fromkeys(vb).keys())
    if ctor in ("incremental", "incremental_str_plain", "incremental_shuffled"):
        # `str` names where the node is a plain Variable (add_* normalise with Variable.norm), the node itself otherwise
        def conv(i):
            n = V(i)
            if ctor != "incremental" and type(n) is Variable and (ctor == "incremental_str_plain" or rng.random() < 0.5):
                return n.name
            return n
        ops = [("n", i) for i in (G.all_nodes(g) if ctor == "incremental_shuffled" else nodes)] + \
              [("d", e) for e in di] + [("b", e) for e in bi]
        if ctor == "incremental_shuffled":
            rng.shuffle(ops)
        rv = NxMixedGraph()
        for kind, x in ops:
            if kind == "n":
                rv.add_node(conv(x))
            elif kind == "d":
                rv.add_directed_edge(conv(x[0]), conv(x[1]))
            else:
                a, b = x if (ctor != "incremental_shuffled" or rng.random() < 0.5) else (x[1], x[0])
                rv.add_undirected_edge(conv(a), conv(b))
        return rv
    if ctor == "from_adj":
        dadj, badj = {}, {}
        for u, v in di:
            dadj.setdefault(V(u), []).append(V(v))
        for u, v in bi:
            if rng.random() < 0.5:
                u, v = v, u
            badj.setdefault(V(u), []).append(V(v))
        return NxMixedGraph.from_adj(nodes=[V(i) for i in G.all_nodes(g)], directed=dadj, undirected=badj)
    raise ValueError(ctor)


def _ctor_fault_cf(g, graph, ctor, cd):
    """as forms.constructor_fault, with FULL node identity (class, name, star, subscripts), not only `.name`"""
    every = list(graph.directed.nodes()) + list(graph.undirected.nodes())
    want_n = {cd.enc(i) for i in G.all_nodes(g)}
    types = {cd.enc(i): type(cd.enc(i)) for i in G.all_nodes(g)}
    alien = [n for n in every if n not in want_n or type(n) is not types[n]]
    if alien:
        return f"constructor {ctor}: node {alien[0]!r} ({type(alien[0]).__name__}) is not a node of the graph that was asked for"
    got = (set(graph.nodes()), set(graph.directed.edges()), {frozenset(e) for e in graph.undirected.edges()})
    want = (want_n, {(cd.enc(u), cd.enc(v)) for u, v in g["di"]}, {frozenset((cd.enc(u), cd.enc(v))) for u, v in g["bi"]})
    if got != want:
        return f"constructor {ctor} built {got} instead of {want}"
    if set(graph.directed.nodes()) != set(graph.undirected.nodes()):
        return f"constructor {ctor}: directed and undirected parts hold different node sets"
    return None


def _build(case, g, ctor, seed, cd):
    """(graph, None) or (None, why the constructor failed / built another graph)"""
    try:
        graph = F.build_graph(g, ctor, seed=seed, name=cd.name) if cd.plain else _build_cf(g, ctor, seed, cd)
    except Exception as e:  # noqa: BLE001 - every graph dict of this module is a legal input of every constructor
        return None, f"constructor {ctor} raised {type(e).__name__}: {str(e)[:120]}"
    fault = F.constructor_fault(g, graph, ctor, name=cd.name) if cd.plain else _ctor_fault_cf(g, graph, ctor, cd)
    return (None, fault) if fault else (graph, None)


# ------------------------------------------------------------------------------------------ real code

def _canon_nxgraph(graph, decode):
    nodes = [str(decode(n)) for n in graph.nodes()]
    di = [[str(decode(u)), str(decode(v))] for u, v in graph.directed.edges()]
    bi = [[str(decode(u)), str(decode(v))] for u, v in graph.undirected.edges()]
    return C.canon_graph(["graph", nodes, di, bi])


def _snapshot(graph):
    return (list(graph.directed.nodes()), list(graph.undirected.nodes()), list(graph.directed.edges()),
            list(graph.undirected.edges()))


def _mutate(x, fresh):
    """change a returned / a receiver graph in place: a fresh node, a directed and a bidirected edge between it and an old
    node, one old edge of each kind removed.  `x` is an NxMixedGraph or (disorient) an nx.Graph."""
    parts = [x.directed, x.undirected] if hasattr(x, "directed") else [x]
    old = next(iter(parts[0].nodes()), None)
    for p in parts:
        e = next(iter(p.edges()), None)
        if e is not None:
            p.remove_edge(*e)
    if hasattr(x, "directed"):
        x.add_node(fresh)
        if old is not None:
            x.add_directed_edge(fresh, old)
            x.add_undirected_edge(old, fresh)
    else:
        x.add_node(fresh)
        if old is not None:
            x.add_edge(old, fresh)


def _snap_any(x):
    return _snapshot(x) if hasattr(x, "directed") else (list(x.nodes()), list(x.edges()))


def _alias_fault(op, graph, r, before):
    """'returns a NEW graph' as a runtime clause: the result shares no component graph with the receiver; changing the
    result afterwards leaves the receiver alone, changing the receiver afterwards leaves the result alone"""
    from y0.dsl import Variable

    comps = [r.directed, r.undirected] if hasattr(r, "directed") else [r]
    if r is graph or any(c is graph.directed or c is graph.undirected for c in comps):
        return f"{op}: the returned graph shares a component graph object with the receiver"
    fresh1, fresh2 = Variable("zzFreshR"), Variable("zzFreshG")
    try:
        _mutate(r, fresh1)
    except Exception:  # noqa: BLE001 - a result that refuses changes (a frozen view) is judged by the second half only
        pass
    if _snapshot(graph) != before:
        return f"{op}: changing the returned graph changed the receiver (the result is not a new graph)"
    snap_r = _snap_any(r)
    _mutate(graph, fresh2)
    if _snap_any(r) != snap_r:
        return f"{op}: changing the receiver after the call changed the graph returned earlier (the result is not a new graph)"
    return None


GRAPH_VALUED = ("subgraph", "remove_in_edges", "remove_out_edges", "remove_nodes_from", "intervene", "moralize", "disorient")


def _call(case, g, cd=None):
    """run the operation on the real code, every argument in the form recorded for the case; returns canonical output"""
    from y0.dsl import Intervention
    from y0.graph import get_nodes_in_directed_paths

    op = case["op"]
    fm = _forms(case)
    cd = cd or Codec(case)
    graph, extra = _build(case, g, fm["ctor"], case.get("shuffle_seed", 0), cd)
    if extra:
        return ["err"], extra
    dec = cd.dec
    nset = lambda xs: C.as_set([str(dec(v)) for v in xs])  # noqa: E731
    Sl = [cd.enc(i) for i in case.get("S", [])]
    S = set(Sl)                                   # for the harness' own use; the call gets a fresh container
    kw = fm["call"] == "keyword"
    A = None
    if op == "get_markov_pillow":
        A = F.container(Sl, fm["S"])
    elif "S" in fm and op != "intervene":
        A = F.varset(Sl, fm["S"])
    arg = lambda: A                               # noqa: E731  (each call path hands the container over exactly once)
    arg_before = F.snapshot(A)
    before = _snapshot(graph)
    r = None
    try:
        if op in ("subgraph", "remove_in_edges", "remove_out_edges", "remove_nodes_from"):
            r = getattr(graph, op)(**{KW[op]: arg()}) if kw else getattr(graph, op)(arg())
            out = ["ok", _canon_nxgraph(r, dec)]
        elif op == "intervene":
            ivl = [Intervention(name=cd.name(i), star=st) for i, st in zip(case["S"], case["stars"])]
            ivs = set(ivl)
            r = graph.intervene(variables=F.container(ivl, fm["S"])) if kw else graph.intervene(F.container(ivl, fm["S"]))
            bad = [n for n in r.nodes() if getattr(n, "interventions", None) != frozenset(ivs) and ivs]
            if bad and not _both_signs(case):
                extra = "intervene: node without the requested subscripts"
            out = ["ok", _canon_nxgraph(r, cd.dec_base)]
        elif op in ("ancestors_inclusive", "descendants_inclusive", "get_markov_blanket"):
            r = getattr(graph, op)(**{KW[op]: arg()}) if kw else getattr(graph, op)(arg())
            out = ["ok", nset(r)]
        elif op == "get_markov_pillow":
            r = graph.get_markov_pillow(nodes=A) if kw else graph.get_markov_pillow(A)
            out = ["ok", nset(r)]
        elif op == "districts":
            ds = graph.districts()
            out = ["ok", C.as_set([nset(d) for d in ds])]
        elif op == "moralize":
            r = graph.moralize()
            out = ["ok", _canon_nxgraph(r, dec)]
        elif op == "disorient":
            r = graph.disorient()
            out = ["ok", C.canon_graph(["graph", [str(dec(n)) for n in r.nodes()], [],
                                        [[str(dec(u)), str(dec(v))] for u, v in r.edges()]])]
        elif op == "topological_sort":
            out = ["ok", [str(dec(v)) for v in graph.topological_sort()]]
        elif op == "pre" or (op == "pre_order" and not case["order"]):
            if op == "pre":
                d = fm["default_order"]
                if d == "omitted":
                    r = graph.pre(nodes=arg()) if kw else graph.pre(arg())
                elif d == "none":
                    r = graph.pre(nodes=arg(), topological_sort_order=None) if kw else graph.pre(arg(), None)
                else:
                    r = graph.pre(arg(), topological_sort_order=None)
            else:
                empty = F.container([], fm["order"])
                r = graph.pre(nodes=arg(), topological_sort_order=empty) if kw else graph.pre(arg(), empty)
            out = ["ok", [str(dec(v)) for v in r]]
            # pre_spec: the prefix of topological_sort() that stops at the first member of S
            ts = graph.topological_sort()
            want = list(itt.takewhile(lambda x: x not in S, ts))
            if list(r) != want:
                extra = extra or f"pre: {out[1]} is not the prefix of topological_sort() before the first member of S"
        elif op == "pre_order":
            order = F.container([cd.enc(i) for i in case["order"]], fm["order"])
            r = graph.pre(nodes=arg(), topological_sort_order=order) if kw else graph.pre(arg(), order)
            out = ["ok", [str(dec(v)) for v in r]]
        elif op == "get_district":
            r = graph.get_district(node=cd.enc(case["v"])) if kw else graph.get_district(cd.enc(case["v"]))
            out = ["ok", nset(r)]
        elif op == "nodes_in_directed_paths":
            Tl = [cd.enc(i) for i in case["T"]]
            r = get_nodes_in_directed_paths(graph=graph, sources=arg(), targets=F.varset(Tl, fm["T"])) if kw else \
                get_nodes_in_directed_paths(graph, arg(), F.varset(Tl, fm["T"]))
            out = ["ok", nset(r)]
        else:
            raise ValueError(op)
    except Exception as e:  # noqa: BLE001
        # whatever the class (NetworkXError, NodeNotFound, KeyError, TypeError, AttributeError, RecursionError ...): an error
        # outcome of the REAL code, never a harness error -- the oracle then says whether the definition allows an error on
        # this input.  No argument form used here is outside the declared types.
        out = ["err"]
        r = None
        extra_tag = type(e).__name__  # noqa: F841
    after = _snapshot(graph)
    if before != after:
        extra = "receiver modified by the call"
    elif F.snapshot(A) != arg_before:
        extra = "the caller's node collection was modified by the call"
    elif r is not None and A is not None and r is A:
        extra = f"{op}: the result IS the caller's collection object"
    elif extra is None and r is not None and op in GRAPH_VALUED:
        extra = _alias_fault(op, graph, r, before)       # last: it changes both graphs
    return out, extra


def _both_signs(case):
    seen = {}
    for i, st in zip(case.get("S", []), case.get("stars", [])):
        seen.setdefault(i, set()).add(bool(st))
    return any(len(v) == 2 for v in seen.values())


# ------------------------------------------------------------------------------------------ oracle

def _closure(start, step):
    seen = set(start)
    todo = list(start)
    while todo:
        v = todo.pop()
        for w in step(v):
            if w not in seen:
                seen.add(w)
                todo.append(w)
    return seen


def _expected(case):
    """independent set-theoretic definition; returns canonical expected output or None (no opinion)"""
    g = case["g"]
    op = case["op"]
    V = set(G.all_nodes(g))
    di = {tuple(e) for e in g["di"]}
    bi = {frozenset(e) for e in g["bi"]}
    S = set(case.get("S", []))
    if op == "pre_order" and case["order"]:
        # an explicit order is taken as given: the prefix before the first member of S (S may be anything)
        return ["ok", [str(v) for v in itt.takewhile(lambda x: x not in S, case["order"])]]
    if op == "get_district":
        if case["v"] not in V:
            return ["err"]
        nb = lambda v: {w for e in bi if v in e for w in e}  # noqa: E731
        return ["ok", C.as_set([str(v) for v in _closure({case["v"]}, nb)])]
    if op == "intervene":
        # `variables: set[Intervention]` need not be nodes: a foreign intervention relabels every node and removes nothing.
        # No opinion for the empty set (no counterfactual variable without subscripts exists).  +X together with -X: X is
        # an intervened node whatever the sign ("with edges into the intervened nodes removed"), so the edges are judged;
        # which subscripts the nodes of such a contradictory world carry is left to the correspondence
        if not S:
            return None
    elif not S <= V:
        return None  # the property quantifies over node subsets of the graph
    pa = lambda v: {u for (u, w) in di if w == v}  # noqa: E731
    ch = lambda v: {w for (u, w) in di if u == v}  # noqa: E731

    def cg(nodes, d, b):
        return ["ok", C.canon_graph(["graph", [str(x) for x in nodes], [[str(u), str(v)] for u, v in d],
                                     [[str(x) for x in sorted(e)] * (2 if len(e) == 1 else 1) for e in b]])]

    if op == "subgraph":
        return cg(S, {e for e in di if e[0] in S and e[1] in S}, {e for e in bi if e <= S})
    if op in ("remove_in_edges", "intervene"):
        return cg(V, {e for e in di if e[1] not in S}, {e for e in bi if not (e & S)})
    if op == "remove_out_edges":
        return cg(V, {e for e in di if e[0] not in S}, bi)
    if op == "remove_nodes_from":
        return cg(V - S, {e for e in di if e[0] not in S and e[1] not in S}, {e for e in bi if not (e & S)})
    if op == "ancestors_inclusive":
        return ["ok", C.as_set([str(v) for v in _closure(S, pa)])] if S <= V else None
    if op == "descendants_inclusive":
        return ["ok", C.as_set([str(v) for v in _closure(S, ch)])] if S <= V else None
    if op == "get_markov_pillow":
        return ["ok", C.as_set([str(v) for v in set().union(*[pa(s) for s in S]) - S])] if S <= V else None
    if op == "get_markov_blanket":
        if not S <= V:
            return None
        b = set()
        for s in S:
            b |= pa(s) | ch(s) | set().union(*[pa(c) for c in ch(s)])
        return ["ok", C.as_set([str(v) for v in b - S])]
    if op == "districts":
        nb = lambda v: {w for e in bi if v in e for w in e}  # noqa: E731
        ds = {frozenset(_closure({v}, nb)) for v in V}
        return ["ok", C.as_set([C.as_set([str(v) for v in d]) for d in ds])]
    if op == "moralize":
        extra = {frozenset(p) for v in V for p in itt.combinations(sorted(pa(v)), 2)}
        return cg(V, di, bi | extra)
    if op == "disorient":
        return cg(V, set(), bi | {frozenset(e) for e in di})
    return None


def _oracle(case, out):
    g = case["g"]
    op = case["op"]
    V = set(G.all_nodes(g))
    di = {tuple(e) for e in g["di"]}
    exp = _expected(case)
    if exp is not None and out != exp:
        return f"{op}: result differs from the set-theoretic definition: expected {exp} got {out}"
    if op == "topological_sort":
        desc = {v: _closure({v}, lambda x: {w for (u, w) in di if u == x}) - {v} for v in V}
        cyclic = any(v in _closure({w for (u, w) in di if u == v}, lambda x: {w for (u, w) in di if u == x}) for v in V)
        if cyclic:
            return None if out[0] == "err" else "topological_sort returned an order for a cyclic graph"
        if out[0] != "ok":
            return "topological_sort failed on an acyclic graph"
        o = [int(x) for x in out[1]]
        if sorted(o) != sorted(V):
            return "topological_sort is not a permutation of the nodes"
        pos = {v: i for i, v in enumerate(o)}
        if any(pos[u] >= pos[v] for (u, v) in di):
            return "topological_sort violates an edge"
        del desc
    if op in ("pre", "pre_order") and not case.get("order"):
        cyc = _is_cyclic(V, di)
        if cyc:
            return None if out[0] == "err" else "pre returned a prefix although the graph has no topological order"
        if out[0] != "ok":
            return "pre failed on an acyclic graph"
        P = [int(x) for x in out[1]]
        S = set(case.get("S", []))
        if len(set(P)) != len(P) or not set(P) <= V or set(P) & S:
            return f"pre: {P} repeats a node, leaves the graph or contains a member of S"
        if any(u not in P for (u, w) in di if w in P):
            return f"pre: {P} is not closed under parents, so it is not a prefix of a topological order"
        if not (S & V) and set(P) != V:
            return f"pre: no member of S in the graph, yet {P} is not all nodes"
    if op == "nodes_in_directed_paths":
        # ONE definition for both implementations: the nodes on simple directed paths WITH AT LEAST ONE EDGE from a member of
        # S to a member of T (so a member of S & T is returned only if it lies on such a path).  Non-node arguments: the
        # implementation for acyclic graphs ignores them, the one for cyclic graphs (nx.all_simple_paths) raises
        # NodeNotFound when both sets are non-empty; the oracle has no opinion there (the property quantifies over node
        # subsets), the theorems nodesInDirectedPaths_dag_spec / _cyclic_error say which is which.
        S, T = set(case["S"]), set(case["T"])
        cyc = _is_cyclic(V, di)
        if not (S <= V and T <= V):
            return None         # no opinion: the model and the real code must still agree (correspondence)
        if out[0] != "ok":
            return f"nodes_in_directed_paths failed: {out}"
        exp = set()

        def dfs(path, t):
            cur = path[-1]
            if cur == t and len(path) > 1:
                exp.update(path)
                return          # a simple path ends at its first visit of the target
            for (u, w) in di:
                if u == cur and w not in path:
                    dfs(path + [w], t)
        for s_ in S & V:
            for t in T & V:
                dfs([s_], t)
        if C.as_set([str(v) for v in exp]) != out[1]:
            return f"nodes_in_directed_paths: expected {sorted(exp)} got {out[1]} ({'cyclic' if cyc else 'acyclic'} branch)"
    return None


def _is_cyclic(V, di):
    ch = lambda x: {w for (u, w) in di if u == x}  # noqa: E731
    return any(v in _closure(ch(v), ch) for v in V)


ORDER_FREE = ("topological_sort", "pre")     # results that legitimately depend on the insertion order


def _features(case, V, di):
    """semantic tags of rare shapes, computed from the case itself (whatever generator produced it)"""
    op = case["op"]
    f = {}
    pa = lambda v: {u for (u, w) in di if w == v}  # noqa: E731
    ch = lambda v: {w for (u, w) in di if u == v}  # noqa: E731
    S = set(case.get("S", [])) & V
    if op == "get_markov_blanket" and S:
        chS = set().union(*[ch(s) for s in S])
        paS = set().union(*[pa(s) for s in S])
        # a child of the query that is also in the blanket for another reason and has a parent outside the query
        hot = [c for c in chS if (c in paS or any(c in pa(c2) for c2 in chS if c2 != c)) and pa(c) - S]
        f["mb_child_already_in_blanket"] = bool(hot)
        f["mb_shared_child"] = any(len(pa(c) & S) >= 2 for c in chS)
        f["mb_query_size"] = min(len(S), 3)
    if op == "get_markov_pillow" and S:
        f["pillow_parent_inside_query"] = any(pa(s) & S for s in S)
        f["pillow_common_parent"] = any(pa(a) & pa(b) for a in S for b in S if a < b)
    if op == "nodes_in_directed_paths":
        T = set(case["T"])
        f["paths_branch"] = "cyclic" if _is_cyclic(V, di) else "acyclic"
        f["paths_S_meets_T"] = bool(set(case["S"]) & T)
        f["paths_non_node_arg"] = not (set(case["S"]) <= V and T <= V)
    if op == "pre_order":
        o = case["order"]
        f["pre_order_kind"] = ("empty" if not o else "foreign" if not set(o) <= V else "repeated" if len(set(o)) != len(o)
                               else "partial" if set(o) != V else
                               "linear_extension" if all(o.index(u) < o.index(w) for (u, w) in di) else "not_topological")
    if op in ("topological_sort", "pre"):
        f["graph_cyclic"] = _is_cyclic(V, di)
    if op in ("ancestors_inclusive", "descendants_inclusive") and S:
        step = pa if op == "ancestors_inclusive" else ch
        seen, level, depth = set(S), set(S), 0
        while True:
            level = set().union(*[step(v) for v in level]) - seen
            if not level:
                break
            seen |= level
            depth += 1
        f["closure_depth"] = min(depth, 7)
    if op in ("topological_sort", "pre", "pre_order", "nodes_in_directed_paths") and not _is_cyclic(V, di):
        # longest directed path (edges) of the acyclic graph
        memo = {}

        def lp(v):
            if v not in memo:
                memo[v] = 1 + max((lp(w) for w in ch(v)), default=-1)
            return memo[v]
        f["longest_path"] = min(max((lp(v) for v in V), default=0), 7)
    return f


def _table_tags(case, cd):
    """what the node table of the case looks like (G14-1: receivers whose nodes are not plain Variables)"""
    from y0.dsl import CounterfactualVariable

    t = {"names": case.get("names") or "plain"}
    nodes = [cd.enc(i) for k in ("g", "h") if k in case for i in G.all_nodes(case[k])]
    ncf = sum(1 for n in set(nodes) if isinstance(n, CounterfactualVariable))
    t["cf_nodes"] = min(ncf, 4)
    if ncf:
        by = {}
        for n in set(nodes):
            by.setdefault(n.name, []).append(n)
        t["two_worlds_same_base"] = any(sum(isinstance(n, CounterfactualVariable) for n in v) >= 2 for v in by.values())
        t["plain_beside_its_cf"] = any(len(v) >= 2 and any(not isinstance(n, CounterfactualVariable) for n in v) for v in by.values())
        args = [cd.enc(i) for k in ("S", "T") for i in case.get(k) or []] + ([cd.enc(case["v"])] if "v" in case else [])
        t["cf_in_argument"] = any(isinstance(n, CounterfactualVariable) for n in args)
    return t


def _graph_key(g):
    return (frozenset(G.all_nodes(g)), frozenset(tuple(e) for e in g["di"]), frozenset(frozenset(e) for e in g["bi"]))


def _run_eq(case):
    """`__eq__` from its definition: equal iff same node set, same directed edge set, same bidirected edge set (an
    unordered pair each); symmetric; `!=` is its negation; a graph equals its copy (comparison with non-graphs is outside the property)"""
    g, h = case["g"], case["h"]
    fm = _forms(case)
    tags = {"op": "eq", "shape": case.get("shape", "unknown"), "n_nodes": len(G.all_nodes(g))}
    tags.update(F.tags(fm))
    want = _graph_key(g) == _graph_key(h)
    tags["equal"] = want
    cd = Codec(case)
    tags.update(_table_tags(case, cd))
    A, fault = _build(case, g, fm["ctor"], case.get("shuffle_seed", 0), cd)
    if fault is None:
        B, fault = _build(case, h, fm["ctor_h"], case.get("shuffle_seed", 0) + 1, cd)
    if fault:
        return {"out": ["err"], "fail": fault, "nontrivial": False, "tags": tags}
    before = (_snapshot(A), _snapshot(B))
    try:
        ab, ba, ne = A == B, B == A, A != B
        refl = (A == A.copy()) and (B == B.copy()) and (A == A)
    except Exception as e:  # noqa: BLE001
        return {"out": ["err"], "fail": f"__eq__ raised {type(e).__name__}: {str(e)[:120]}", "nontrivial": False, "tags": tags}
    out = ["ok", "true" if ab is True else "false" if ab is False else repr(ab)]
    fail = None
    if ab is not want:
        fail = f"__eq__ says {ab} for graphs that are {'equal' if want else 'different'} by definition ({case.get('shape')}): {g} vs {h}"
    elif ba is not ab:
        fail = f"__eq__ is not symmetric: A == B is {ab}, B == A is {ba}"
    elif ne is not (not ab):
        fail = f"A != B is {ne} although A == B is {ab}"
    elif not refl:
        fail = "a graph does not compare equal to itself / its copy()"
    elif (_snapshot(A), _snapshot(B)) != before:
        fail = "receiver modified by the call"
    else:
        try:
            fail = _alias_fault("copy", A, A.copy(), before[0])
            tags["alias_checked"] = True
        except Exception as e:  # noqa: BLE001
            fail = f"copy() raised {type(e).__name__}: {str(e)[:120]}"
    V = G.all_nodes(g)
    return {"out": out, "fail": fail, "nontrivial": len(V) >= 3 and bool(g["di"] or g["bi"]), "tags": tags}


def run_python(case):
    if case["op"] == "eq":
        return _run_eq(case)
    g = case["g"]
    cd = Codec(case)
    out, extra = _call(case, g, cd)
    fail = extra or _oracle(case, out)
    order_free = case["op"] in ORDER_FREE or (case["op"] == "pre_order" and not case["order"])
    if fail is None:
        g2 = G.shuffled(random.Random(case.get("shuffle_seed", 0)), g)
        out2, extra2 = _call(case, g2, cd)
        if order_free:
            # the exact list may differ; it must still satisfy the same specification on the re-inserted graph
            fail = extra2 or _oracle(dict(case, g=g2), out2)
            if fail is None and out2[0] != out[0]:
                fail = f"{case['op']}: success depends on insertion order: {out} vs {out2} (graph {g2})"
        elif out2 != out:
            fail = f"{case['op']}: result depends on insertion order: {out} vs {out2} (graph {g2})"
    V = G.all_nodes(g)
    S = case.get("S")
    nontrivial = len(V) >= 3 and (bool(g["di"]) and bool(g["bi"]) or len(V) > len({x for e in g["di"] + g["bi"] for x in e})) \
        and (S is None or 0 < len(set(S) & set(V)) < len(V))
    tags = {"op": case["op"], "n_nodes": len(V), "outcome": out[0], "shape": case.get("shape", "unknown"),
            "has_isolated": len(V) > len({x for e in g["di"] + g["bi"] for x in e}),
            "arg_outside_graph": bool(S) and not set(S) <= set(V),
            "insertion_order_not_sorted": g["nodes"] != sorted(V) or g["di"] != sorted(g["di"])}
    tags.update(_features(case, set(V), {tuple(e) for e in g["di"]}))
    tags.update(_table_tags(case, cd))
    fm = _forms(case)
    for k in ("S", "T"):
        if k in fm and k in case:
            fm[k] = F.effective(case[k], fm[k])
    tags.update(F.tags(fm))
    if case["op"] in GRAPH_VALUED and out[0] == "ok":
        tags["alias_checked"] = True
    for k in ("S", "T"):
        if k in case and case["op"] != "intervene" and len(set(case[k])) != len(case[k]):
            # a repeated element reaches the code only in the forms that keep repetitions
            tags["dup_in_" + k] = "handed_over" if fm.get(k) in ("list", "tuple") + F.ONE_SHOT else "lost_in_set_form"
    if case["op"] == "intervene":
        tags["intervene_foreign"] = ("none" if set(S) <= set(V) else "only_foreign" if not set(S) & set(V) else "mixed_with_members")
        tags["intervene_both_signs"] = _both_signs(case)
    tags["bi_self_loop"] = any(e[0] == e[1] for e in g["bi"])
    tags["di_self_loops"] = min(2, sum(1 for e in g["di"] if e[0] == e[1]))
    return {"out": out, "fail": fail, "nontrivial": nontrivial, "tags": tags}


# ------------------------------------------------------------------------------------------ model side

def request(case):
    g = case["g"]
    gs = C.graph_sexp(g["nodes"], g["di"], g["bi"])
    op = case["op"]
    if op == "eq":
        h = case["h"]
        return C.enc(["graph", "graph_eq", gs, C.graph_sexp(h["nodes"], h["di"], h["bi"])])
    if op in OPS_NOARG:
        return C.enc(["graph", op, gs])
    if op == "nodes_in_directed_paths":
        return C.enc(["graph", op, gs, case["S"], case["T"]])
    if op == "pre_order":
        return C.enc(["graph", op, gs, case["S"], case["order"]])
    if op == "get_district":
        return C.enc(["graph", op, gs, case["v"]])
    return C.enc(["graph", op, gs, case["S"]])


def canon_model(case, rep):
    op = case["op"]
    if op == "eq":
        return ["ok", rep] if isinstance(rep, str) else ["err"]      # the driver answers with the bare atom true / false
    if rep[0] == "err":
        return ["err"]
    body = rep[1]
    if op in ("subgraph", "remove_in_edges", "remove_out_edges", "remove_nodes_from", "intervene", "moralize", "disorient"):
        return ["ok", C.canon_graph(body)]
    if op == "districts":
        return ["ok", C.as_set([C.as_set(d) for d in body])]
    if op in ("topological_sort", "pre", "pre_order"):
        return ["ok", list(body)]
    return ["ok", C.as_set(list(body))]


def shrink(case):
    if case["op"] == "eq":
        # delete the same node / edge from both graphs (where present)
        g, h = case["g"], case["h"]
        for v in sorted(set(G.all_nodes(g)) | set(G.all_nodes(h))):
            f = lambda x: {"nodes": [y for y in x["nodes"] if y != v], "di": [e for e in x["di"] if v not in e],  # noqa: E731
                           "bi": [e for e in x["bi"] if v not in e]}
            yield dict(case, g=f(g), h=f(h))
        for key in ("di", "bi"):
            for e in g[key]:
                same = (lambda a, b: a == b) if key == "di" else (lambda a, b: set(a) == set(b))
                yield dict(case, g=dict(g, **{key: [x for x in g[key] if not same(x, e)]}),
                           h=dict(h, **{key: [x for x in h[key] if not same(x, e)]}))
        return
    for g in G.shrink_graph(case["g"]):
        c = dict(case)
        c["g"] = g
        live = set(G.all_nodes(g))
        if "S" in c and c["op"] == "intervene":
            keep = [i for i, v in enumerate(c["S"]) if v in live or v >= 90]
            c["S"] = [c["S"][i] for i in keep]
            c["stars"] = [c["stars"][i] for i in keep]
        if "order" in c:
            c["order"] = [v for v in c["order"] if v in live or v >= 90]
        if "v" in c and c["v"] not in live and c["v"] < 90:
            continue
        yield c
    for key in ("S", "T"):
        if key in case:
            for k in range(len(case[key])):
                c = dict(case)
                c[key] = case[key][:k] + case[key][k + 1:]
                if case["op"] == "intervene":
                    c["stars"] = case["stars"][:k] + case["stars"][k + 1:]
                yield c
    if case.get("cf"):
        # fewer counterfactual nodes (a table that is no longer injective is rejected by the codec, so the candidate fails)
        for key in case["cf"]:
            yield dict(case, cf={k: v for k, v in case["cf"].items() if k != key})
    if case.get("names"):
        yield {k: v for k, v in case.items() if k != "names"}


def finding_key(case, res):
    import json
    c = {k: case[k] for k in ("op", "g", "h", "S", "T", "order", "v", "cf", "names", "stars") if k in case and (k != "stars" or _both_signs(case))}
    return json.dumps(c, sort_keys=True)


MANIFEST = {
    "text": ("Proof: 91 Lean theorems about the executable model of graph.py characterise, for every well-formed mixed graph and "
             "every node subset: node set, directed and bidirected edge sets of subgraph / remove_in_edges / remove_out_edges / "
             "remove_nodes_from / intervene / moralize / disorient; ancestors and descendants as reflexive-transitive closures; "
             "districts as the partition by bidirected connectivity (get_district total exactly on nodes); Markov pillow and "
             "blanket (total exactly on node arguments); topological_sort (networkx's generation-wise Kahn algorithm) returns a "
             "linear extension, returns whenever the graph is acyclic and raises NetworkXUnfeasible exactly when it has a "
             "directed cycle (loop invariant + fuel bound); pre = prefix of that order before the first member of S, closed "
             "under parents; get_nodes_in_directed_paths = nodes on simple directed paths from S to T in both implementations "
             "(transitive closure on DAGs, DFS enumeration with fuel on cyclic graphs); and insertion-order independence of "
             "every operation (congruence under NxMixedGraph.__eq__; for topological_sort: valid for every insertion order). "
             "The model is tied to graph.py by the correspondence check on every run (71 000 cases quick, receivers with counterfactual "
             "nodes and two name tables included; thorough adds every "
             "mixed graph on <= 3 labelled nodes x every operation x every argument)."),
    "note": ("Trusted: Lean kernel; axioms propext/Classical.choice/Quot.sound; the hand-written model of graph.py and "
             "networkx (insertion-ordered dict semantics, nx.ancestors / all_simple_paths error behaviour, "
             "topological_generations) tied to the code by sampling; 'receiver unchanged' and 'the result is a new graph' (no "
             "aliasing with the receiver) are runtime clauses checked by the harness on every call, not theorems."),
    "technique": "Lean 4 theorems (induction over from_edges folds, fuel-bounded closure = ReflTransGen, Kahn loop invariant, DFS path enumeration) + differential correspondence with the real NxMixedGraph + set-theoretic oracle",
}
