"""C08 — IDC* estimands equal the conditional counterfactual probability.

Correspondence: `y0.algorithm.identify.idc_star` vs the Lean model `Y0.Cf.idcStar` (Y0/Model/IdcStar.lean on top of the
ID*, counterfactual-graph and d-separation models), under every iteration order of the sets the Python iterates over.
Oracle (from the property statement): exact-rational functional SCMs with shared noise; a returned expression must equal
P(outcomes and conditions) / P(conditions) in every sampled model with P(conditions) > 0; Zero only if the joint event
has probability 0 in every sampled model; a condition that is certainly impossible must be rejected, not answered;
any exception other than Unidentifiable / the rejection ValueError is a violation.
"""
from __future__ import annotations

import json
import os
import random
import subprocess
import sys

from .. import common as C
from .. import enc_expr as E
from .. import gen_graph as G
from ..oracles import cf_common as K
from ..oracles import cf_fscm as S
from . import c07 as C07
from . import c18 as C18

PROP = "C08"
RULE = ("(9%: three structured streams -- 'wide': 2-3 outcomes x 2-3 conditions (mostly >= 5 keys) over up to THREE counterfactual worlds on ladder-like graphs with 4-5 nodes (6 in the thorough tier), half of them 'twins' with >= 2 base variables shared between outcomes and conditions; 'outbase': the same base variable twice among the OUTCOMES; 'unidcond': conditioning events that ID* refuses (bow, Y_x = y, X = x'); 20% of the random pairs are drawn with up to three worlds; 6%: structured 'samebase' inputs -- several conditions over ONE base variable in different worlds with equal / different values, both listing orders, or an outcome sharing its base variable with a condition; one batch case: >= 60 multi-condition inputs run unpatched in fresh interpreters under PYTHONHASHSEED 0,1,2 (thorough: 400 inputs, 8 seeds); 7%: structured 'observational' inputs -- P(y | x) over factual variables, the static part of the two proved fragments; 8%: structured 'bichain' inputs -- 3-4 nodes on a chain of bidirected edges, one outcome, two conditions) random ADMGs with 2-5 nodes x pairs (outcome conjunction, non-empty condition conjunction) with disjoint keys drawn "
        "from <=2 counterfactual worlds plus the factual world (shared/distinct subscripts, x / x' values, "
        "self-interventions); the examples of test_idc_star / Shpitser-Pearl / Tikka and all past witnesses first; a "
        "stream of impossible conditions (violating effectiveness). Every case is run under every order of the worlds and "
        "both orders of the other set-valued iterations. A case is non-trivial when the graph has an edge, some variable "
        "is counterfactual and IDC* got past line 1 (answered, returned Zero, or refused as unidentifiable).")
ASSUMPTIONS = [
    "soundness (value = P(outcomes, conditions) / P(conditions)) is PROVED on two fragments of observational queries (factual "
    "unstarred outcomes and conditions without a common name): InFragmentC (idcstar_sound_fragment: rule 2 applies to no condition, "
    "the joint ID* estimand marginalises nothing) and InFragmentX (idcstar_sound_fragment_exchange: ONE condition, rule 2 applies to "
    "it, every outcome descends from it or none does; rule 2 of the do-calculus is proved for functional SCMs on the noise space, no "
    "positivity of kernels is assumed, only P(condition) > 0); both are decided on the real run (tags in_fragment_c / in_fragment_x) "
    "AND by the model (driver op idc_star_checked), the two verdicts are part of the correspondence; a failure inside a fragment is a "
    "VIOLATION keyed [IN-FRAGMENT(-X), kind], never a known finding.",
    "several conditions, one of them exchanged (InFragmentXs, decidable inFragmentXsB): since `fix:` 1834c39 the rule-2 test conditions on "
    "the OTHER conditions; PROVED (idcstar_exchange_licensed, idcstar_sound_fragment_exchange_multi_partial): whenever line 4 exchanges a "
    "condition, every outcome is m-separated from it (specification of C04, not the algorithm) in the counterfactual graph without its "
    "outgoing edges given the other conditions and the self-intervened nodes -- the graphical premise of rule 2; NOT proved: the semantic "
    "equality for several conditions (rule 2 with a non-empty conditioning set on the noise space), and it is FALSE of the code when a "
    "remaining condition descends from the exchanged one (open finding exchange:conditions: the remaining conditions keep no subscript; "
    "pinned by the suite's figure-9a expectation); the harness recomputes the documented test (with the other conditions) independently "
    "by path enumeration on every exchange it has to explain (kind exchange:not-licensed-by-documented-test, never listed)",
    "outside the two fragments soundness and zero-soundness have NO theorem; IDC* inherits the wrong "
    "answers of ID* (F10) and adds its own (after an exchange the remaining conditions keep no subscript; what remains of F11: "
    "Expression.conditional also normalises over the variables bound by inner sums of the ID* estimand -- the subscript part of "
    "F11 is repaired by `fix:` a54a0f5): decided by correspondence + exact "
    "evaluation on 8 sampled functional SCMs per case; the known wrong answers are listed in known_findings.jsonl",
    "reading of an estimand as in C07 (free outcome variables take the values of the joint event; both subscript conventions "
    "are tried); models in which the conditions have probability 0 or a denominator of the estimand is 0 are skipped",
    "'rejects an impossible condition': the oracle only demands a rejection when impossibility is certain (a conjunct "
    "V_S = v whose own subscript fixes V to the other value); a rejection of a possible condition is counted "
    "(tag rejected_possible) but is not a violation of this property's statement",
    "PYTHONHASHSEED (R-clause): until `fix:` b76144c idc_star's answer depended on the hash seed (corpus/C08/hash_order_dependent.json: "
    "the keys taken from a Python set in get_new_outcomes_and_conditions decided which condition is exchanged first); the code now "
    "sorts them by _variable_sort_key, the model is run with kordf = orderDistrict false (all theorems hold for every kordf); PROVED "
    "for the model (idcstar_reassociation_order_independent, idcstar_order_independent): with the set iterated in ANY order pi before "
    "the sort, the re-association and -- on inputs without self-intervened keys (IdcInv) -- the whole of idc_star return the same "
    "answer; that Python's sorted() over the set behaves like the model's sort of a permutation is the runtime part: "
    "the check therefore also runs a batch of multi-condition inputs (the old witnesses first) UNPATCHED in fresh interpreters under several hash "
    "seeds: differing answers are judged one by one, a wrong one is the never-listed kind 'order-dependent-verdict'; the other "
    "set-valued iterations (worlds in cg.py, district nodes in id_star.py) are still driven through all their orders in-process",
    "attribution to a listed finding needs TWO things: the broken step is identified on the input by exact evaluation (below) AND "
    "the Lean model -- the correspondence-checked copy of the code the findings were written about -- returns the very same answer "
    "on that input under the same iteration order (driver call per failing input); a wrong answer that differs from the model's "
    "gets the never-listed key [differs-from-the-wrong-answer-of-the-modelled-code, ...]: a new defect is not hidden behind an old "
    "finding that happens to fire on the same input",
    "Zero from the exchange step (`fix:` 1a940ac: two outcomes end up under one key with different values) is characterised by theorem "
    "(idcstar_collapse_zero_only_on_conflict / idcstar_no_collapse_no_zero); that the joint event then has probability 0 is decided by "
    "the oracle (check_zero on sampled models), not proved; a wrong exchange that loses an outcome conjunct would be the never-listed "
    "kind 'exchange:outcomes-collapse'",
    "vocabulary: an estimand with a term that mixes variables of different worlds is a failure of kind 'vocabulary' whatever its "
    "value (it is a counterfactual joint distribution, nothing has been identified); the unchanged code never returns one "
    "(idcstar_vocab)",
    "termination of the model is by fuel (2(|outcomes|+|conditions|) + |V| + 4): the inner ID* calls terminate by theorem "
    "(C07 idstar_never_out_of_fuel); IDC*'s own line-4 recursion terminates by theorem (i) with the explicit bound |conditions| + 1 "
    "when no variable NAME occurs both among the outcomes and among the conditions (idcstar_own_recursion_terminates / "
    "idcstar_bound_suffices) and (ii) WITHOUT an explicit bound on every input without self-intervened keys, shared names allowed "
    "(idcstar_terminates_shared_names: lexicographic measure (#outcome names, #conditions named like no outcome); rule 2 never "
    "accepts a condition that is a copy of an outcome variable); tag termination_theorem_applies, also computed by the model "
    "(idcInvB / disjointNamesB) and compared. OPEN: an explicit bound in case (ii) -- the model's fuel bound is not proved sufficient "
    "there (the re-association can add conditions, even at later levels) -- and inputs with a self-intervened key AND a shared name "
    "(about 9% of the generated inputs): no measure is known; no input deeper than |conditions| + 1 is known (exhaustive over two "
    "variables: 1 336 608 inputs; > 10 million random inputs, harness/props/c08_termsearch.py); it is checked on every generated "
    "input (an exhausted fuel would be a correspondence disagreement, a RecursionError of the real code a crash = VIOLATION); the "
    "division `e / d` is modelled for the operands IDC* can produce (an ID* estimand is never a Fraction)",
    "pairs in which the same counterfactual variable V_S occurs both as an outcome and as a condition are left out of the "
    "checked domain (idc_star merges the two dicts, the condition's value silently wins)",
    "a wrong value / wrong Zero is classified by the FIRST step of IDC*'s own chain of claims that an independent exact "
    "evaluation shows to be broken on that input: 'reassociation' (get_new_outcomes_and_conditions changes "
    "P(outcomes | conditions); only for events with a counterfactual world), 'exchange' (the line-4 exchange changes it: "
    "'exchange:conditions' when it would be right had the remaining conditions -- those not already in a world that sets the exchanged "
    "variable -- received the new subscript too, the subscript's star taken from the exchanged condition's value when no outcome "
    "received it; 'exchange:separation' otherwise: repaired by `fix:` 1834c39, no longer listed, 0 of 8014 thorough inputs; only listed "
    "when the exchanging level has at least two conditions -- with a single condition it is the unlisted kind "
    "'exchange-with-a-single-condition:...', i.e. a VIOLATION), 'inherited' (the final id_star call is wrong by "
    "itself: keyed by the C07 finding it shrinks to), 'F11' (numerator right, every name Expression.conditional wrongly "
    "normalises over is BOUND by a sum inside the numerator; confirmed by evaluating the repaired fraction; a wrong "
    "normaliser that contains a subscript-only name is the repaired part of F11 and is reported as the unlisted kind "
    "'normalisation:subscript', i.e. as a VIOLATION); these classes have ONE coarse finding key each, "
    "because the broken step is identified on every such input, not inferred from the input's shape; any other failure "
    "(including every crash) is keyed by (failure kind, graph + outcomes + conditions of the SHRUNK failing input up to "
    "renaming). A new defect that only ever co-occurs with an earlier broken step on the same input AND leaves the answer of the "
    "unchanged code untouched there would be masked (any change of the answer on such an input is caught by the comparison with the model)",
]
EXHAUSTIVE = {"quick": False, "thorough": False}
LEANCHECK_MODULES = ["Y0.Model.IdcStar", "Y0.Props.C08"]

X, W, Y, D, Z = C18.X, C18.W, C18.Y, C18.D, C18.Z
v = K.mkvar
CORPUS = [
    # test_idc_star: impossible condition -> ValueError
    {"g": C18.CHAIN, "outcomes": [[v(Y, [(D, "m")]), "m"]], "conditions": [[v(Z, [(D, "m")]), "m"], [v(Z), "p"], [v(D), "m"]]},
    # joint inconsistent -> Zero
    {"g": C18.CHAIN, "outcomes": [[v(Z, [(D, "m")]), "m"]], "conditions": [[v(Z), "p"], [v(D), "m"]]},
    {"g": C18.TIKKA2, "outcomes": [[v(Y, [(X, "m")]), "m"]], "conditions": [[v(Z, [(X, "m")]), "m"], [v(X), "p"]]},
    {"g": C18.FIG9A, "outcomes": [[v(Y, [(X, "m")]), "m"]], "conditions": [[v(X), "p"], [v(Z, [(D, "m")]), "m"], [v(D), "m"]]},
    {"g": {"nodes": [0, 1], "di": [[0, 1]], "bi": []}, "outcomes": [[v(1), "m"]], "conditions": [[v(0), "m"]]},
    {"g": {"nodes": [0, 1], "di": [[0, 1]], "bi": [[0, 1]]}, "outcomes": [[v(1), "m"]], "conditions": [[v(0), "m"]]},
    {"g": {"nodes": [0, 1], "di": [[0, 1]], "bi": []}, "outcomes": [[v(1), "m"]], "conditions": [[v(0), "p"]]},
    {"g": {"nodes": [0, 1], "di": [[0, 1]], "bi": []}, "outcomes": [[v(0), "m"]], "conditions": [[v(1), "m"]]},
    # tautological condition (probability 1)
    {"g": {"nodes": [0, 1], "di": [[0, 1]], "bi": []}, "outcomes": [[v(1), "m"]], "conditions": [[v(0, [(0, "m")]), "m"]]},
    # impossible outcome, possible condition
    {"g": {"nodes": [0, 1], "di": [[0, 1]], "bi": []}, "outcomes": [[v(0, [(0, "m")]), "p"]], "conditions": [[v(1), "m"]]},
    # the exchange fragment (idcstar_sound_fragment_exchange): W -> X -> Y, P(y | x); two outcomes below X; no outcome below X
    {"g": {"nodes": [0, 1, 2], "di": [[2, 0], [0, 1]], "bi": []}, "outcomes": [[v(1), "m"]], "conditions": [[v(0), "m"]]},
    {"g": {"nodes": [0, 1, 2], "di": [[0, 1], [1, 2]], "bi": []}, "outcomes": [[v(1), "m"], [v(2), "m"]], "conditions": [[v(0), "m"]]},
    {"g": {"nodes": [0, 1, 2, 3], "di": [[2, 0], [3, 1]], "bi": []}, "outcomes": [[v(1), "m"]], "conditions": [[v(0), "m"]]},
    # termination with shared names (idcstar_terminates_shared_names): the re-association ADDS a condition at the second level
    # (A->D, B->D, C->D, B->Y, C->Y; outcomes D_b, D_c, Y_b; conditions A, Y_c)
    {"g": {"nodes": [0, 1, 2, 3, 4], "di": [[0, 3], [1, 3], [2, 3], [1, 4], [2, 4]], "bi": []},
     "outcomes": [[v(3, [(1, "m")]), "m"], [v(3, [(2, "m")]), "m"], [v(4, [(1, "m")]), "m"]],
     "conditions": [[v(0), "m"], [v(4, [(2, "m")]), "m"]]},
    # witness of the defect repaired by `fix:` cf71e9b (the exchange makes an outcome the variable of a REMAINING CONDITION with another
    # value; the answer is Zero): Z->X->W->Y, Z<->W (X=0, Y=1, Z=2, W=3); outcomes X = x, Y_{z,w'} = y; conditions Z_x = z, X_z = x'
    {"g": {"nodes": [0, 1, 2, 3], "di": [[2, 0], [0, 3], [3, 1]], "bi": [[2, 3]]},
     "outcomes": [[v(1, [(2, "m"), (3, "p")]), "m"], [v(0), "m"]],
     "conditions": [[v(2, [(0, "m")]), "m"], [v(0, [(2, "m")]), "p"]]},
]


def _gen_bichain(rng: random.Random):
    """structured: 3-4 nodes joined by a CHAIN of bidirected edges (plus a few directed edges), one outcome and TWO
    conditions, factual or in one shared world, unstarred values mostly -- the rule-2 test then has to look at ancestors of
    a condition that are not ancestors of the outcome (colliders / latent chains through the other condition)"""
    n = rng.choice([3, 3, 4])
    nodes = list(range(n))
    rng.shuffle(nodes)
    bi = [[nodes[i], nodes[i + 1]] for i in range(n - 1) if rng.random() < 0.85]
    di = []
    for i in range(n):
        for j in range(i + 1, n):
            if rng.random() < 0.3:
                di.append([nodes[i], nodes[j]])     # acyclic: along the shuffled order
    g = {"nodes": sorted(nodes), "di": di, "bi": bi}
    pick = rng.sample(nodes, 3)
    w = ()
    if n == 4 and rng.random() < 0.4:
        x = [v_ for v_ in nodes if v_ not in pick][0]
        w = ((x, "m"),)
    val = lambda: "m" if rng.random() < 0.8 else "p"    # noqa: E731
    outs = [[K.mkvar(pick[0], w if rng.random() < 0.7 else ()), val()]]
    conds = [[K.mkvar(pick[1], w if rng.random() < 0.7 else ()), val()],
             [K.mkvar(pick[2], w if rng.random() < 0.7 else ()), val()]]
    rng.shuffle(conds)
    return g, outs, conds


def _gen_samebase(rng: random.Random):
    """structured: SEVERAL CONDITIONS OVER ONE BASE VARIABLE in different worlds (Z_w = z', Z = z), equal and different values,
    both listing orders; Z has a child Y (the outcome, in one of the worlds) and usually a parent X that the world w sets, so
    that the copies of Z are distinct nodes of the counterfactual graph and rule 2 can apply to one of them; sometimes the
    outcome shares its base variable with a condition instead (a third copy of Z, or Y itself also conditioned on in another
    world).  What is exchanged for an intervention must be the value of THAT condition, not of a namesake."""
    n = rng.choice([3, 3, 4])
    order = list(range(n))
    rng.shuffle(order)
    x, z, y = order[0], order[1], order[2]
    di = [[z, y]]
    if rng.random() < 0.85:
        di.append([x, z])
    for i in range(n):
        for j in range(i + 1, n):
            e = [order[i], order[j]]
            if e not in di and rng.random() < 0.2:
                di.append(e)
    bi = []
    for i in range(n):
        for j in range(i + 1, n):
            if rng.random() < 0.15:
                bi.append([order[i], order[j]])
    g = {"nodes": sorted(order), "di": di, "bi": bi}
    star = lambda p_=0.5: "p" if rng.random() < p_ else "m"    # noqa: E731
    others = [v_ for v_ in order if v_ not in (z, y)]
    w1 = ((x, star()),)
    pool = [(), w1]
    if rng.random() < 0.5:
        w2 = ((x, "p" if w1[0][1] == "m" else "m"),) if rng.random() < 0.6 or len(others) < 2 else \
            tuple(sorted((o, star()) for o in others[:2]))
        if w2 not in pool:
            pool.append(w2)
    ws = rng.sample(pool, 2)
    a = star()
    b = a if rng.random() < 0.35 else ("p" if a == "m" else "m")
    conds = [[K.mkvar(z, ws[0]), a], [K.mkvar(z, ws[1]), b]]
    r = rng.random()
    if r < 0.65:
        outs = [[K.mkvar(y, rng.choice(pool)), star(0.3)]]
    elif r < 0.85 and len(pool) == 3:
        w3 = [w for w in pool if w not in ws][0]
        outs = [[K.mkvar(z, w3), star()], [K.mkvar(y, rng.choice(pool)), star(0.3)]][:rng.choice([1, 2])]
    else:
        wy = rng.sample(pool, 2)
        outs = [[K.mkvar(y, wy[0]), star(0.3)]]
        conds.append([K.mkvar(y, wy[1]), star(0.3)])
    if rng.random() < 0.25 and len(others) > 1:
        conds.append([K.mkvar(others[1], rng.choice([w for w in pool if others[1] not in {n_ for n_, _ in w}])), star(0.3)])
    rng.shuffle(conds)
    keys = set()
    conds = [c for c in conds if not (C.enc(c[0]) in keys or keys.add(C.enc(c[0])))]
    return g, outs, conds


def _sparse_graph(rng: random.Random, n, p_di=0.3, p_bi=0.12, chain=True):
    """acyclic ADMG on n nodes along a shuffled order; `chain`: consecutive nodes of the order are joined by a directed edge
    (a ladder A -> B -> C -> ...), so that every node has an ancestor / descendant and the graph is never edgeless"""
    order = list(range(n))
    rng.shuffle(order)
    di = [[order[i], order[i + 1]] for i in range(n - 1) if chain and rng.random() < 0.8]
    for i in range(n):
        for j in range(i + 2, n):
            if rng.random() < p_di:
                di.append([order[i], order[j]])
    bi = [[order[i], order[j]] for i in range(n) for j in range(i + 1, n) if rng.random() < p_bi]
    return {"nodes": sorted(order), "di": di, "bi": bi}, order


def _gen_wide(rng: random.Random, tier):
    """structured: MANY KEYS -- 2-3 outcomes x 2-3 conditions (>= 5 keys in most cases) over up to THREE counterfactual worlds plus the
    factual world on a ladder-like graph with 4-5 nodes (6 in the thorough tier); with probability 1/2 a 'twin': two or three base
    variables B each observed in a world w (outcomes) and in another world / factually (conditions), i.e. >= 2 bases shared across the
    bar; otherwise keys drawn at random from the pool of worlds, repeated bases allowed on either side"""
    n = rng.choice([4, 4, 5, 5, 6] if tier != "quick" else [4, 4, 4, 5])
    g, order = _sparse_graph(rng, n, p_di=0.25, p_bi=0.1)
    star = lambda p_=0.3: "p" if rng.random() < p_ else "m"    # noqa: E731
    nw = rng.choice([1, 2, 2, 3, 3])
    worlds = []
    for _ in range(nw):
        w = tuple(sorted((x, star()) for x in rng.sample(order[:max(2, n - 1)], rng.choice([1, 1, 2]))))
        if rng.random() < 0.3 and worlds:
            w = tuple((x, "p" if s_ == "m" else "m") for x, s_ in worlds[0])
        if w not in worlds:
            worlds.append(w)
    pool = worlds + [()]
    if rng.random() < 0.5:
        w = worlds[0]
        free = [v_ for v_ in order if v_ not in {x for x, _ in w}]
        bases = rng.sample(free, min(len(free), rng.choice([2, 2, 3])))
        other = rng.choice([w2 for w2 in pool if w2 != w])
        outs = [[K.mkvar(b, w), star()] for b in bases]
        conds = [[K.mkvar(b, other if b not in {x for x, _ in other} else ()), star()] for b in bases]
        if rng.random() < 0.5:
            outs, conds = conds, outs
    else:
        def draw(k):
            ev = {}
            for _ in range(k):
                w = rng.choice(pool)
                cand = [v_ for v_ in order if v_ not in {x for x, _ in w}] or order
                var = K.mkvar(rng.choice(cand), w)
                ev[C.enc(var)] = [var, star()]
            return list(ev.values())
        outs, conds = draw(rng.choice([2, 3])), draw(rng.choice([2, 3, 3]))
    keys = {C.enc(v_) for v_, _ in outs}
    conds = [c for c in conds if C.enc(c[0]) not in keys]
    rng.shuffle(outs)
    rng.shuffle(conds)
    return g, outs, conds


def _gen_outbase(rng: random.Random):
    """structured: the same base variable TWICE AMONG THE OUTCOMES (Y_w = y, Y = y / y' -- the exchange step rebuilds the outcome
    dict and can collapse two keys) with one or two conditions on ancestors of Y, one of which rule 2 can exchange"""
    n = rng.choice([3, 4, 4])
    g, order = _sparse_graph(rng, n, p_di=0.3, p_bi=0.15)
    y = order[-1] if rng.random() < 0.7 else order[-2]
    anc = [v_ for v_ in order if v_ != y]
    star = lambda p_=0.4: "p" if rng.random() < p_ else "m"    # noqa: E731
    x = rng.choice(anc)
    w1 = ((x, star()),)
    w2 = rng.choice([(), ((x, "p" if w1[0][1] == "m" else "m"),)])
    a = star()
    outs = [[K.mkvar(y, w1), a], [K.mkvar(y, w2), a if rng.random() < 0.5 else ("p" if a == "m" else "m")]]
    zs = rng.sample(anc, min(len(anc), rng.choice([1, 2])))
    conds = [[K.mkvar(z, rng.choice([(), w1]) if z != x else ()), star()] for z in zs]
    if rng.random() < 0.4:
        # the collision of `fix:` 1a940ac: X = x is observed with the value the world w1 sets, Y is also an outcome factually:
        # exchanging X turns Y into Y_x, which is already there (equal or different value)
        outs[1][0] = K.mkvar(y, ())
        conds = [c for c in conds if int(c[0][1]) != x] + [[K.mkvar(x), w1[0][1]]]
    rng.shuffle(outs)
    return g, outs, conds


def _gen_unidcond(rng: random.Random):
    """structured: a conditioning event that ID* REFUSES (line 1 of IDC* swallows `Unidentifiable`): the bow X -> Y, X <-> Y with the
    conditions Y_x = y, X = x' (line 8 of ID* finds the conflict), outcomes elsewhere or on a third copy"""
    n = rng.choice([3, 4])
    order = list(range(n))
    rng.shuffle(order)
    x, y, r = order[0], order[1], order[2:]
    di, bi = [[x, y]], [[x, y]]
    for v_ in r:
        for u in (x, y):
            t = rng.random()
            if t < 0.3:
                di.append([u, v_])
            elif t < 0.45:
                di.append([v_, u]) if u == x else None
        if rng.random() < 0.2:
            bi.append([y, v_])
    di = [e for e in di if e]
    g = {"nodes": sorted(order), "di": di, "bi": bi}
    s_ = "p" if rng.random() < 0.5 else "m"
    o = "p" if s_ == "m" else "m"
    conds = [[K.mkvar(y, ((x, s_),)), "m"], [K.mkvar(x), o]]
    if rng.random() < 0.3:
        conds.append([K.mkvar(r[0]), "m"])
    outs = [[K.mkvar(rng.choice(r), rng.choice([(), ((x, s_),)])), "m" if rng.random() < 0.7 else "p"]]
    if rng.random() < 0.3:
        outs.append([K.mkvar(y, ((x, o),)), "m"])
    keys = {C.enc(v_) for v_, _ in outs}
    conds = [c for c in conds if C.enc(c[0]) not in keys]
    rng.shuffle(conds)
    return g, outs, conds


def _gen_observational(rng: random.Random):
    """structured: an observational conditional query P(y | x) -- factual variables, unstarred values, disjoint names: the
    static part of the fragment of idcstar_sound_fragment (whether rule 2 applies / something is marginalised varies)"""
    g = K.rand_admg(rng, 2, 4)
    nodes = G.all_nodes(g)
    k = rng.randint(2, min(len(nodes), 4))
    pick = rng.sample(nodes, k)
    cut = rng.randint(1, k - 1)
    outs = [[K.mkvar(v_), "m"] for v_ in pick[:cut]]
    conds = [[K.mkvar(v_), "m"] for v_ in pick[cut:]]
    return g, outs, conds


def cases(rng: random.Random, tier: str):
    out = [dict(c, seed=3000 + i) for i, c in enumerate(CORPUS)]
    out += K.load_corpus("C08")
    n = 1200 if tier == "quick" else 8000
    while len(out) < n + len(CORPUS):
        big = rng.random() < (0.12 if tier == "quick" else 0.3)
        if rng.random() < 0.08:
            g, outs, conds = _gen_bichain(rng)
            out.append({"g": g, "outcomes": outs, "conditions": conds, "seed": rng.randrange(1 << 30), "gen": "bichain"})
            continue
        if rng.random() < 0.06:
            g, outs, conds = _gen_samebase(rng)
            if not ({C.enc(v_) for v_, _ in outs} & {C.enc(v_) for v_, _ in conds}):
                out.append({"g": g, "outcomes": outs, "conditions": conds, "seed": rng.randrange(1 << 30), "gen": "samebase"})
                continue
        r_ = rng.random()
        if r_ < 0.09:
            gen, (g, outs, conds) = ("wide", _gen_wide(rng, tier)) if r_ < 0.045 else \
                ("outbase", _gen_outbase(rng)) if r_ < 0.07 else ("unidcond", _gen_unidcond(rng))
            if outs and conds and not ({C.enc(v_) for v_, _ in outs} & {C.enc(v_) for v_, _ in conds}) and \
                    len({C.enc(v_) for v_, _ in outs}) == len(outs) and len({C.enc(v_) for v_, _ in conds}) == len(conds):
                out.append({"g": g, "outcomes": outs, "conditions": conds, "seed": rng.randrange(1 << 30), "gen": gen})
                continue
        if rng.random() < 0.07:
            g, outs, conds = _gen_observational(rng)
            out.append({"g": g, "outcomes": outs, "conditions": conds, "seed": rng.randrange(1 << 30), "gen": "observational"})
            continue
        g = K.rand_admg(rng, 2, 5 if big else 4)
        pr = K.rand_event_pair(rng, g, max_worlds=3 if rng.random() < 0.2 else 2)
        if pr is None:
            continue
        outs, conds = pr
        c = {"g": g, "outcomes": outs, "conditions": conds, "seed": rng.randrange(1 << 30)}
        if rng.random() < 0.015 and g["di"]:   # malformed: cyclic graph (both sides must fail the same way)
            c["g"] = dict(g, di=g["di"] + [[g["di"][0][1], g["di"][0][0]]])
            c["malformed"] = "cyclic"
        if rng.random() < 0.04:   # make the condition certainly impossible
            var, val = conds[0]
            n0 = int(var[1])
            nv = K.mkvar(n0, [(n_, s) for n_, s in var[4] if int(n_) != n0] + [(n0, "p" if val == "m" else "m")])
            if C.enc(nv) not in {C.enc(v_) for v_, _ in conds + outs}:
                conds[0] = [nv, val]
        out.append(c)
    # R-clause (Python runtime): the answer must not depend on PYTHONHASHSEED.  One batch case: inputs with several conditions
    # and a counterfactual world (where the re-association / the choice of the exchanged condition can depend on an order) are
    # run in FRESH interpreters under several hash seeds, unpatched; see _run_hashseeds
    batch = [c for c in out if not c.get("malformed") and len(c["conditions"]) >= 2 and K.n_worlds(joint(c)) >= 1]
    batch = [c for c in out if "PYTHONHASHSEED" in str(c.get("note", ""))] + batch[:60 if tier == "quick" else 400]
    out.append({"kind": "hashseeds", "g": {"nodes": [], "di": [], "bi": []}, "outcomes": [], "conditions": [],
                "batch": [{k: c[k] for k in ("g", "outcomes", "conditions", "seed")} for c in batch],
                "hashseeds": [0, 1, 2] if tier == "quick" else list(range(8)), "seed": 0})
    return out


# ------------------------------------------------------------------------------------------ real code


_CHILD = """
import sys, json
sys.path.insert(0, VERIF)
from harness import common as C
C.use_repo()
from harness.props import c08
out = []
for c in BATCH:
    try:
        r, exc = c08._run_real(c, None)
    except Exception as e:
        r = ["harness", type(e).__name__]
    out.append(r)
print(json.dumps(out))
"""


def _run_hashseeds(case):
    """the real idc_star, unpatched, on every input of the batch in a fresh interpreter per PYTHONHASHSEED.  An input whose
    answers differ is judged answer by answer with the exact oracle: a wrong one is a failure of kind 'order-dependent-verdict'
    (never listed since `fix:` b76144c: get_new_outcomes_and_conditions sorts the re-associated keys)."""
    results = {}
    for hs in case["hashseeds"]:
        src = _CHILD.replace("VERIF", repr(str(C.VERIF))).replace("BATCH", "json.loads(%r)" % json.dumps(case["batch"]))
        env = dict(os.environ)
        env["PYTHONHASHSEED"] = str(hs)
        env["Y0_REPO"] = str(C.REPO)
        env["VERIF_LINECOV"] = "0"
        p = subprocess.run([sys.executable, "-c", src], capture_output=True, text=True, env=env, timeout=1800)
        if p.returncode != 0:
            raise RuntimeError(p.stderr[-800:])
        results[hs] = json.loads(p.stdout.strip().splitlines()[-1])
    fail, key, dependent = None, None, 0
    for i, c in enumerate(case["batch"]):
        answers = []
        for hs in case["hashseeds"]:
            if results[hs][i] not in answers:
                answers.append(results[hs][i])
        if len(answers) < 2:
            continue
        dependent += 1
        if fail is None and _in_domain(c):
            for a in answers:
                f1, k1 = _judge(c, a, None, 8, None)
                if f1:
                    fail = (f"idc_star's answer depends on PYTHONHASHSEED on {json.dumps(c)}: answers {json.dumps(answers)[:600]}; "
                            f"one of them is wrong: {f1}")
                    key = json.dumps(["order-dependent-verdict", [k1]])
                    break
    out = {"out": ["hashseeds"], "fail": fail, "nontrivial": True,
           "tags": {"gen": "hashseeds", "hashseed_batch": len(case["batch"]), "hashseeds": len(case["hashseeds"]),
                    "hashseed_dependent_inputs": dependent}}
    if key:
        out["finding_key"] = key
    return out


def joint(case):
    seen = {}
    for var, val in case["outcomes"] + case["conditions"]:
        seen[C.enc(var)] = [var, val]
    return K.sort_event(list(seen.values()))


def _run_real(case, strategy, record=None):
    """run the real idc_star.  `record` (a dict) receives, without changing any behaviour:
    record["id_star"]  : every inner id_star call as (event, kwargs, result | exception)
    record["levels"]   : the (outcomes, conditions) of every (recursive) idc_star call
    record["reassoc"]  : the (new_outcomes, new_conditions) returned by get_new_outcomes_and_conditions, per level"""
    import importlib

    import networkx as nx
    from y0.algorithm.identify import Unidentifiable

    idc = importlib.import_module("y0.algorithm.identify.idc_star")
    graph = G.to_nx_mixed(case["g"])
    orig_id, orig_idc = idc.id_star, idc.idc_star
    try:
        with K.fixed_orders_idc(strategy):
            if record is not None:
                record.update({"id_star": [], "levels": [], "reassoc": [], "rule2": []})
                orig_new = idc.get_new_outcomes_and_conditions
                orig_r2 = idc.cf_rule_2_of_do_calculus_applies

                def rec_r2(cf_graph, outcomes, condition, **kw):
                    outcomes = list(outcomes)
                    r = orig_r2(cf_graph, outcomes, condition, **kw)
                    record["rule2"].append({"level": len(record["levels"]) - 1, "cf": K.enc_nx_cf_graph(cf_graph),
                                            "outcomes": [E.enc_var(o) for o in outcomes],
                                            "others": [E.enc_var(o) for o in kw.get("other_conditions", ())],
                                            "condition": E.enc_var(condition), "result": bool(r)})
                    return r

                def rec_id(g, event, **kw):
                    try:
                        r = orig_id(g, event, **kw)
                    except Exception as e:
                        record["id_star"].append((dict(event), dict(kw), e))
                        raise
                    record["id_star"].append((dict(event), dict(kw), r))
                    return r

                def rec_idc(g, outcomes, conditions, **kw):
                    record["levels"].append((dict(outcomes), dict(conditions)))
                    return orig_idc(g, outcomes, conditions, **kw)

                def rec_new(new_event, outcomes, conditions):
                    r = orig_new(new_event, outcomes, conditions)
                    record["reassoc"].append((dict(r[0]), dict(r[1])))
                    return r
                idc.id_star, idc.idc_star, idc.get_new_outcomes_and_conditions = rec_id, rec_idc, rec_new
                idc.cf_rule_2_of_do_calculus_applies = rec_r2
                try:
                    est = rec_idc(graph, K.dec_event(case["outcomes"]), K.dec_event(case["conditions"]))
                finally:
                    idc.get_new_outcomes_and_conditions = orig_new
                    idc.cf_rule_2_of_do_calculus_applies = orig_r2
            else:
                est = orig_idc(graph, K.dec_event(case["outcomes"]), K.dec_event(case["conditions"]))
    except Unidentifiable:
        return ["unidentifiable"], None
    except ValueError as e:
        if "ID* algorithm returned 0" in str(e):
            return ["rejected"], None
        return ["err"], "ValueError"
    except (nx.NetworkXException, KeyError, TypeError, RuntimeError, ZeroDivisionError, RecursionError,
            AttributeError, IndexError) as e:
        return ["err"], type(e).__name__
    finally:
        idc.id_star, idc.idc_star = orig_id, orig_idc
    return ["ok", K.canon_expr(E.to_str_tree(E.enc_expr(est)))], None


def certainly_impossible(ev):
    for var, val in ev:
        for n, s in var[4]:
            if int(n) == int(var[1]) and s != val:
                return True
    return False


def _ratio_differs(g, pair1, pair2, seed, n_models):
    """do P(o1, c1)/P(c1) and P(o2, c2)/P(c2) differ in some sampled model (both conditions possible there)?"""
    import random as _r

    rng = _r.Random(seed)
    (o1, c1), (o2, c2) = pair1, pair2
    j1, j2 = K.sort_event(_union(o1, c1)), K.sort_event(_union(o2, c2))
    z1, z2 = _collides(o1, c1), _collides(o2, c2)   # an outcome and a condition on one variable with two values: P = 0
    for k in range(n_models):
        m = S.Fscm(g["nodes"], g["di"], g["bi"], rng, max_card=2 if k < n_models // 2 else 3)
        nu = S.rand_nu(m, rng)
        try:
            d1 = m.prob(S.event_items(c1, nu)) if c1 else 1
            d2 = m.prob(S.event_items(c2, nu)) if c2 else 1
            if d1 == 0 or d2 == 0:
                continue
            r1 = 0 if z1 else m.prob(S.event_items(j1, nu)) / d1
            r2 = 0 if z2 else m.prob(S.event_items(j2, nu)) / d2
            if r1 != r2:
                return True
        except KeyError:
            return False
    return False


def _collides(o, c):
    """does an outcome conjunct name the same counterfactual variable as a condition conjunct with a DIFFERENT value?"""
    cv = {C.enc(var): val for var, val in c}
    return any(C.enc(var) in cv and cv[C.enc(var)] != val for var, val in o)


def _union(o, c):
    seen = {}
    for var, val in list(o) + list(c):
        seen[C.enc(var)] = [var, val]
    return list(seen.values())


def _documented_rule2(call):
    """The rule-2 test AS DOCUMENTED in idc_star.py ((Y _||_ Z | X, Z - {Z}) in G_{bar X, underbar Z}), recomputed
    independently of the code (path-enumeration d-separation of oracles/sep_paths.py): every outcome is d-separated from
    the condition in the counterfactual graph without the edges leaving the condition, given the self-intervened nodes AND
    THE OTHER CONDITIONS (since `fix:` 1834c39 the code passes them), the two tested nodes excepted.  None = out of scope."""
    from ..oracles import sep_paths as SP

    _, nodes, di, bi = call["cf"]
    key = lambda v_: json.dumps(K.canon_var(v_))    # noqa: E731
    idx = {key(n): i for i, n in enumerate(nodes)}
    c = idx.get(key(call["condition"]))
    outs = [idx.get(key(o)) for o in call["outcomes"]]
    if c is None or any(o is None for o in outs):
        return None
    g = {"nodes": list(range(len(nodes))), "di": [[idx[key(u)], idx[key(w)]] for u, w in di if idx[key(u)] != c],
         "bi": [[idx[key(u)], idx[key(w)]] for u, w in bi]}
    blocked = {i for i, n in enumerate(nodes) if any(int(a) == int(n[1]) for a, _ in n[4])}
    for o in call.get("others", []):
        if idx.get(key(o)) is None:
            return None
        blocked.add(idx[key(o)])
    try:
        return all(o != c and SP.d_separated(g, o, c, sorted(blocked - {o, c})) for o in outs)
    except SP.OracleDisagreement:
        return None


def _exchange_justified(rec, level):
    """was the exchange made at `level` licensed by the documented rule-2 test?  (True / False / None = unknown)"""
    calls = [c for c in rec.get("rule2", []) if c["level"] == level and c["result"]]
    if not calls:
        return None
    return _documented_rule2(calls[-1])


def _exchange_kind(g, before, after, seed, n_models):
    """Why is the exchange step  P(out | cond) -> P(out' | cond minus {c})  broken?  Decided by exact evaluation of variants:
    'exchange:polarity'   it would be right had the new subscript the other star (the value of the condition was lost),
    'exchange:conditions' it would be right had the remaining conditions received the new subscript as well,
    'exchange:separation' neither (the condition should not have been exchanged: the d-separation test is insufficient).
    (Only reached when the exchange IS licensed by the documented rule-2 test, see _exchange_justified.)"""
    (o1, c1), (o2, c2) = before, after
    k2 = {C.enc(var) for var, _ in c2}
    gone = [[var, val] for var, val in c1 if C.enc(var) not in k2]
    if len(gone) == 1 and len(o2) < len(o1):
        # the dict comprehension that re-subscripts the outcomes produced a key that was already there (Y -> Y_z next to an outcome
        # Y_z): two outcome conjuncts collapsed into one, the value of one of them is lost
        return "exchange:outcomes-collapse"
    if len(gone) != 1 or len(o1) != len(o2):
        return "exchange:separation"
    name = int(gone[0][0][1])

    def with_sub(var, star):
        subs = [(n, s_) for n, s_ in var[4] if int(n) != name] + [(name, star)]
        return K.mkvar(var[1], subs)
    # the new subscript carries the VALUE of the exchanged condition (since `fix:` 8a76512); the outcomes of `before` and `after`
    # are matched by base variable and old subscripts, not by position (two outcomes may share their base variable)
    def strip(var):
        return C.enc(K.mkvar(var[1], [(n, s_) for n, s_ in var[4] if int(n) != name]))
    old_keys = {C.enc(v1) for v1, _ in o1}
    gained = [C.enc(v2) not in old_keys and any(int(n) == name for n, _ in v2[4]) and
              any(strip(v2) == C.enc(v1) for v1, _ in o1) for v2, _ in o2]
    stars = {s_ for (v2, _), g_ in zip(o2, gained) if g_ for n, s_ in v2[4] if int(n) == name}
    if gone[0][1] in ("m", "p"):
        stars.add(gone[0][1])
    # The 'conditions' explanation is an IDENTITY of the calculus (rule 2 with every remaining condition re-subscripted), the
    # 'polarity' explanation a numerical coincidence test: the former is tried first for every star, and the latter must
    # survive five times as many models (seed 3 of the quick tier produced Z->X->Y->W, P(Y_{x}, Y_{x'} | Z, X), a plain
    # exchange:conditions input on which the flipped star happened to agree on all 8 models; with 40 it does not).
    order = sorted(stars, key=lambda x: x != gone[0][1])
    for st in order:
        # (a remaining condition that already carries a subscript for the exchanged variable lives in a world where that
        # variable is set: it keeps it)
        c2s = [[with_sub(v, st), val] if int(v[1]) != name and not any(int(n_) == name for n_, _ in v[4]) else [v, val]
               for v, val in c2]
        if c2s != c2 and len({C.enc(v) for v, _ in c2s}) == len(c2s) and \
                not _ratio_differs(g, before, (o2, c2s), seed, n_models):
            return "exchange:conditions"
    for st in order:
        flip = "m" if st == "p" else "p"
        if any(gained):
            o2f = [[with_sub(v2, flip), val] if g_ else [v2, val] for (v2, val), g_ in zip(o2, gained)]
            if len({C.enc(v) for v, _ in o2f}) == len(o2f) and not _ratio_differs(g, before, (o2f, c2), seed, 5 * n_models):
                return "exchange:polarity"
    return "exchange:separation"


def _explain(case, strategy, n_models):
    """Which step of IDC* first breaks the chain  P(outcomes | conditions) = ... ?  Returns (kind, detail) with kind in
    'reassociation' (get_new_outcomes_and_conditions changed the conditional probability), 'exchange' (the line-4 exchange of
    a condition for an intervention changed it), 'inherited' (the final id_star call is wrong by itself: C07), or None."""
    from y0.dsl import Expression

    rec = {}
    _run_real(case, strategy, record=rec)
    g = {"nodes": G.all_nodes(case["g"]), "di": case["g"]["di"], "bi": case["g"]["bi"]}
    levels = [(K.enc_event(o), K.enc_event(c)) for o, c in rec.get("levels", [])]
    reassoc = [(K.enc_event(o), K.enc_event(c)) for o, c in rec.get("reassoc", [])]
    seed = case.get("seed", 0)
    in_dom = lambda pr: all(S.consistent_subscripts(e) for e in pr)   # noqa: E731
    for i, lv in enumerate(levels):
        if i >= 1 and _collides(*lv) and not _collides(*levels[i - 1]):
            # the exchange of level i-1 re-subscripted an outcome to the key of a REMAINING CONDITION that demands another value:
            # P(outcomes, conditions) = 0, but `outcomes | conditions` (a dict union) silently keeps the condition's value only
            return "exchange:outcome-collides-with-condition", {"level": i - 1, "before": levels[i - 1], "after": lv}
        if i < len(reassoc):
            if in_dom(lv) and in_dom(reassoc[i]) and _ratio_differs(g, lv, reassoc[i], seed, n_models):
                # the listed finding is about keys that the counterfactual graph MERGED (several worlds); a re-association that
                # changes P(outcomes | conditions) of a single-world event is a different, unlisted defect
                nw = K.n_worlds(K.sort_event(_union(*lv)))
                return ("reassociation" if nw >= 1 else "reassociation-in-the-factual-world"), \
                    {"level": i, "before": lv, "after": reassoc[i]}
            if i + 1 < len(levels) and in_dom(reassoc[i]) and in_dom(levels[i + 1]) and \
                    _ratio_differs(g, reassoc[i], levels[i + 1], seed, n_models):
                if _exchange_justified(rec, i) is False:
                    # the known exchange findings are about the DOCUMENTED test being too weak; an exchange that the
                    # documented test (recomputed independently) does not license is a different, unlisted defect
                    return "exchange:not-licensed-by-documented-test", \
                        {"level": i, "before": reassoc[i], "after": levels[i + 1]}
                kind = _exchange_kind(g, reassoc[i], levels[i + 1], seed, n_models)
                if len(reassoc[i][1]) < 2:
                    # both listed exchange findings are about the OTHER conditions (not re-subscripted / ignored by the
                    # separation test); with a single condition at the exchanging level neither explanation is available
                    # (and on factual inputs the step is proved: idcstar_sound_fragment_exchange): an unlisted defect
                    kind = "exchange-with-a-single-condition:" + kind
                return kind, {"level": i, "before": reassoc[i], "after": levels[i + 1]}
    calls = [c for c in rec.get("id_star", []) if "_number_recursions" in c[1]]
    if calls and isinstance(calls[-1][2], Expression):
        event, _, est = calls[-1]
        case07 = {"g": case["g"], "event": K.enc_event(event), "seed": seed}
        if C18._in_domain(case07):
            res = ["ok", K.canon_expr(E.to_str_tree(E.enc_expr(est)))]
            for ds in (0, 7919):   # two model samples: a wrong estimand can coincide with the right value on a few models
                c7 = dict(case07, seed=seed + ds)
                fail, kind = C07._judge(c7, res, None, n_models)
                if fail:
                    return "inherited", {"case07": c7, "kind07": kind}
    return None, None


def _bound_names(e):
    """names in the range of some Sum inside `e`"""
    out = set()
    if isinstance(e, str):
        return out
    if e[0] in ("sum", "osum"):
        out |= {int(v[1]) for v in e[1]} | _bound_names(e[2])
    elif e[0] == "prod":
        for y in e[1:]:
            out |= _bound_names(y)
    elif e[0] == "frac":
        out |= _bound_names(e[1]) | _bound_names(e[2])
    return out


def _normaliser_ranges(expr):
    """(num, R) when `expr` is `num / Sum[R](num)` or `num / num` (what Expression.conditional builds), else None"""
    if isinstance(expr, str) or expr[0] != "frac":
        return None
    num, den = expr[1], expr[2]
    if den == num:
        return num, []
    if not isinstance(den, str) and den[0] == "sum" and den[2] == num:
        return num, [int(v[1]) for v in den[1]]
    return None


def _f11_repaired(case, expr):
    """if `expr` is `num / Sum[R](num)` (what Expression.conditional builds): the candidate repairs of F11 — the same fraction
    normalised over the FREE outcome variables of `num` among R only (no sum over variables bound inside `num`).
    A summed outcome variable X either also drives the same-named unstarred subscripts (they were
    made from the pillow node X by line 6) or leaves them alone (they are literal values of the original event): both
    readings are offered per variable, since the estimand does not tell them apart (F10/M3)."""
    nr = _normaliser_ranges(expr)
    if nr is None:
        return []
    num, ranges = nr
    free = set()
    for fn in S.free_names(num):
        free |= fn
    keep = sorted(n for n in ranges if n in free)
    if not keep:
        return [["frac", num, num]]
    out = []
    for mask in range(2 ** len(keep)):
        both = [n for i, n in enumerate(keep) if mask >> i & 1]
        only = [n for i, n in enumerate(keep) if not mask >> i & 1]
        d = num
        if only:
            d = ["osum", [K.canon_var(K.mkvar(n)) for n in only], d]
        if both:
            d = ["sum", [K.canon_var(K.mkvar(n)) for n in both], d]
        out.append(["frac", num, d])
    return out


def _extra_is_bound_only(expr):
    """every name the normaliser sums over although it is not a free outcome variable of the numerator is bound by a Sum
    inside the numerator (what remains of F11); False when some such name occurs in subscripts only (repaired by
    `fix:` a54a0f5: must not happen any more)"""
    nr = _normaliser_ranges(expr)
    if nr is None:
        return False
    num, ranges = nr
    free = set()
    for fn in S.free_names(num):
        free |= fn
    return all(n in _bound_names(num) for n in ranges if n not in free)


def _judge(case, res, exc, n_models, strategy=None):
    """(failure message, kind) for one answer of the real code.  Wrong values / wrong zeros are classified by what explains
    them: 'inherited' (the inner ID* call is already wrong: a C07 finding), 'F11' (the numerator is right, only the
    normalisation by Expression.conditional is wrong: it sums over variables bound inside the numerator), or plain
    'value' / 'zero'."""
    g = {"nodes": G.all_nodes(case["g"]), "di": case["g"]["di"], "bi": case["g"]["bi"]}
    jt = joint(case)
    cond = K.sort_event(case["conditions"])
    if res == ["err"]:
        return f"idc_star raised {exc}: neither an estimand, Zero, 'unidentifiable' nor the rejection of the condition", f"crash:{exc}"
    if certainly_impossible(cond) and res != ["rejected"]:
        return f"the condition is impossible (violates effectiveness) but IDC* answered {res}", "answered_impossible"
    if res in (["unidentifiable"], ["rejected"]):
        return None, None
    expr = res[1]
    if expr == "zero":
        w = S.check_zero(g, jt, case.get("seed", 0), n_models=n_models)
        if w is None:
            return None, None
        msg, kind = f"Zero returned although the joint event has positive probability: {w}", "zero"
    else:
        bad = C07.contradictory_subscripts(expr)
        if bad is not None:
            return (f"estimand {expr} contains the term {bad} whose subscript set gives one variable both values: it "
                    "denotes nothing"), "illformed"
        if not C07.single_world(expr):
            # as in C07: a term over several worlds is not an interventional term (theorem idcstar_vocab: the unchanged code
            # never returns one); never a listed finding
            mixed = next(lf for lf in S.leaves(expr) if not C07.single_world(lf))
            return (f"estimand {expr} contains the term {mixed} that mixes variables of different worlds: it is a counterfactual "
                    "joint distribution, not an interventional term, so nothing has been identified"), "vocabulary"
        w = S.check_estimand(g, jt, expr, case.get("seed", 0), n_models=n_models, cond=cond)
        if w is None:
            return None, None
        msg, kind = f"estimand {expr} differs from P(outcomes, conditions) / P(conditions): {w}", "value"
    why, detail = _explain(case, strategy, n_models)
    if why == "inherited":
        return msg + f" [explained by the inner ID* call on {detail['case07']['event']}]", "inherited"
    if why is not None:
        return msg + f" [first broken step: {why}: {detail['before']} -> {detail['after']}]", why
    if kind == "value":
        reps = [r for r in _f11_repaired(case, expr) if r != expr]
        if any(S.check_estimand(g, jt, rep, case.get("seed", 0), n_models=n_models, cond=cond) is None for rep in reps):
            if not _extra_is_bound_only(expr):
                # the subscript part of F11 (repaired by `fix:` a54a0f5): neither conditional overload may sum over a name
                # that occurs in subscripts only; NOT a listed finding, so this is reported as a VIOLATION
                return msg + (" [numerator right; the normalisation also sums over names that occur only as subscripts -- "
                              "both conditional overloads skip Intervention objects since the fix]"), "normalisation:subscript"
            return msg + (" [numerator right; only the normalisation of Expression.conditional is wrong, it also sums over "
                          "variables bound inside the numerator: F11 (bound-range part)]"), "F11"
    if kind == "value" and not isinstance(expr, str) and expr[0] == "frac":
        shared = {int(var[1]) for var, _ in case["outcomes"]} & {int(var[1]) for var, _ in case["conditions"]}
        if shared and S.check_estimand(g, jt, expr[1], case.get("seed", 0), n_models=n_models) is None:
            return msg + (" [numerator right; the final normalisation est.conditional([c.get_base() for c in conditions]) works "
                          "with base names, but an outcome and a condition are copies of the same variable]"), "conditional:shared-base"
    if kind == "value" and not isinstance(expr, str) and expr[0] == "frac":
        onames = {int(var[1]) for var, _ in case["outcomes"]}
        if any(int(n_) in onames for var, _ in case["conditions"] for n_, _ in var[4]) and \
                S.check_estimand(g, jt, expr[1], case.get("seed", 0), n_models=n_models) is None:
            return msg + (" [numerator right; a CONDITION lives in a world that sets an OUTCOME variable (X_y = x with Y = y among the "
                          "outcomes): the joint estimand was simplified using the outcome's value (consistency merges X_y into X given "
                          "Y = y), so summing it over the outcome variable -- what est.conditional does -- is not P(conditions)]"), \
                "conditional:condition-in-outcome-world"
    return msg, kind


def _in_domain(case):
    if not case["outcomes"] or not case["conditions"]:
        return False
    for ev in (case["outcomes"], case["conditions"]):
        if len({C.enc(var) for var, _ in ev}) != len(ev):
            return False    # not a dict: the same key twice
    if {C.enc(var) for var, _ in case["outcomes"]} & {C.enc(var) for var, _ in case["conditions"]}:
        return False    # the same counterfactual variable as outcome and as condition: degenerate, kept out of the domain
    return C18._in_domain({"g": case["g"], "event": case["outcomes"] + case["conditions"]})


def _evaluate(case, n_models=8, with_unpatched=True, all_verdicts=False):
    strategies = K.id_strategies(joint(case))
    by_order, excs, strat_of = [], {}, {}
    for s in strategies:
        r, exc = _run_real(case, s)
        by_order.append(r)
        excs[json.dumps(r)] = exc
        strat_of.setdefault(json.dumps(r), s)
    results = list(by_order)
    r0 = None
    if with_unpatched:
        r0, exc0 = _run_real(case, None)
        excs.setdefault(json.dumps(r0), exc0)
        strat_of.setdefault(json.dumps(r0), None)
        results = [r0] + results
    dom = _in_domain(case)
    fail = kind = fail_strategy = None
    verdicts = []     # (answer, strategy, failure kind | None) for every DISTINCT answer, in order of first occurrence
    if dom:
        seen = []
        for r in results:
            if r in seen:
                continue
            seen.append(r)
            f1, k1 = _judge(case, r, excs.get(json.dumps(r)), n_models, strat_of.get(json.dumps(r)))
            verdicts.append((r, strat_of.get(json.dumps(r)), k1))
            if f1 and not fail:
                fail, kind, fail_strategy = f1, k1, strat_of.get(json.dumps(r))
            if fail and not all_verdicts:
                break
    order_verdict = None
    if len(verdicts) > 1 and all_verdicts:
        wrong = [v for v in verdicts if v[2]]
        order_verdict = "all-correct" if not wrong else "all-wrong" if len(wrong) == len(verdicts) else "mixed"
    return {"by_order": by_order, "unpatched": r0, "fail": fail, "kind": kind, "in_domain": dom, "strategy": fail_strategy,
            "order_verdict": order_verdict,
            "verdicts": [[json.dumps(a)[:160], list(s_) if s_ is not None else None, k_] for a, s_, k_ in verdicts]}


def _est_names(e):
    """base names of the non-Intervention variables of an encoded estimand: event variables of every leaf + Sum ranges"""
    out = set()
    if isinstance(e, str):
        return out
    t = e[0]
    if t in ("P", "PP"):
        ch, pa = (e[1], e[2]) if t == "P" else (e[2], e[3])
        out |= {int(v_[1]) for v_ in ch + pa if str(v_[3]) != "1"}
    elif t == "prod":
        for y in e[1:]:
            out |= _est_names(y)
    elif t in ("sum", "osum"):
        out |= {int(v_[1]) for v_ in e[1] if str(v_[3]) != "1"} | _est_names(e[2])
    elif t == "frac":
        out |= _est_names(e[1]) | _est_names(e[2])
    return out


def termination_theorem_applies(case):
    """the static hypotheses of one of the two termination theorems of Props/C08.lean hold:
    idcstar_own_recursion_terminates -- no variable NAME occurs both among the outcomes and among the conditions; or
    idcstar_terminates_shared_names  -- (IdcInv) no key is self-intervened, subscript sets are consistent, variables of the graph"""
    outs, conds = case["outcomes"], case["conditions"]
    on, cn = {int(v_[1]) for v_, _ in outs}, {int(v_[1]) for v_, _ in conds}
    if len({C.enc(v_) for v_, _ in conds}) == len(conds) and not (on & cn):
        return True
    if len({C.enc(v_) for v_, _ in outs}) != len(outs) or len({C.enc(v_) for v_, _ in conds}) != len(conds):
        return False
    nodes = set(G.all_nodes(case["g"]))
    for var, val in outs + conds:
        names = [int(n) for n, _ in var[4]]
        if str(var[2]) != "n" or str(var[3]) != "0" or int(var[1]) not in nodes or len(set(names)) != len(names) \
                or int(var[1]) in names or not isinstance(val, str):
            return False
    return True


def _static_fragment(case):
    """the static part shared by the two proved fragments: factual variables of the graph, unstarred values, no name on both sides"""
    outs, conds = case["outcomes"], case["conditions"]
    if not outs or not conds or case.get("malformed"):
        return False
    nodes = set(G.all_nodes(case["g"]))
    for var, val in outs + conds:
        if var[4] or str(var[2]) != "n" or str(var[3]) != "0" or val != "m" or int(var[1]) not in nodes:
            return False
    on, cn = [int(v_[1]) for v_, _ in outs], [int(v_[1]) for v_, _ in conds]
    return len(set(on)) == len(on) and len(set(cn)) == len(cn) and not (set(on) & set(cn))


def in_fragment_c(case):
    """The fragment of Props/C08.lean `InFragmentC` (theorem idcstar_sound_fragment), decided on the REAL run:
    static  -- outcomes / conditions are dicts of factual variables of the graph, unstarred values, no name on both sides,
               at least one condition (and the graph is acyclic);
    dynamic -- line 4 did not recurse (rule 2 applied to no condition) and the estimand ID* returned for the joint event
               mentions exactly the event's variables (nothing was marginalised).
    Inside it IDC* is PROVED to return P(outcomes, conditions) / P(conditions): a failure there is a VIOLATION."""
    from y0.dsl import Expression

    outs, conds = case["outcomes"], case["conditions"]
    if not outs or not conds or case.get("malformed"):
        return False
    nodes = set(G.all_nodes(case["g"]))
    for var, val in outs + conds:
        if var[4] or str(var[2]) != "n" or str(var[3]) != "0" or val != "m" or int(var[1]) not in nodes:
            return False
    on, cn = [int(v_[1]) for v_, _ in outs], [int(v_[1]) for v_, _ in conds]
    if len(set(on)) != len(on) or len(set(cn)) != len(cn) or set(on) & set(cn):
        return False
    rec = {}
    res, _ = _run_real(case, K.id_strategies(joint(case))[0], record=rec)
    if len(rec.get("levels", [])) != 1 or res[0] == "err":
        return False
    calls = [c for c in rec.get("id_star", []) if "_number_recursions" in c[1]]
    if not calls or not isinstance(calls[-1][2], Expression):
        return False       # ID* refused or failed on the joint event: IDC* returns no expression
    est = K.canon_expr(E.to_str_tree(E.enc_expr(calls[-1][2])))
    return _est_names(est) == set(on) | set(cn)


def in_fragment_x(case):
    """The EXCHANGE fragment of Props/C08.lean `InFragmentX` (theorem idcstar_sound_fragment_exchange), decided on the REAL run:
    static  -- as in_fragment_c, with at least one outcome and exactly ONE condition X = x;
    dynamic -- line 4 recursed exactly once (rule 2 applied to X), the recursive call has NO condition and its outcomes are
               either exactly the Y_x of the original outcomes Y (every outcome descends from X) or exactly the original
               outcomes (none descends from X).
    Inside it IDC* is PROVED to return P(outcomes, X = x) / P(X = x) in every compatible functional SCM with P(X = x) > 0
    (rule 2 of the do-calculus on the noise space, no positivity assumption): a failure there is a VIOLATION."""
    outs, conds = case["outcomes"], case["conditions"]
    if not outs or len(conds) != 1 or case.get("malformed"):
        return False
    nodes = set(G.all_nodes(case["g"]))
    for var, val in outs + conds:
        if var[4] or str(var[2]) != "n" or str(var[3]) != "0" or val != "m" or int(var[1]) not in nodes:
            return False
    on, x = [int(v_[1]) for v_, _ in outs], int(conds[0][0][1])
    if len(set(on)) != len(on) or x in on:
        return False
    rec = {}
    res, _ = _run_real(case, K.id_strategies(joint(case))[0], record=rec)
    levels = rec.get("levels", [])
    if len(levels) != 2 or res[0] == "err":
        return False
    want = K.sort_event([[K.mkvar(int(v_[1]), [(x, "m")]), val] for v_, val in outs])
    o2, c2 = K.sort_event(K.enc_event(levels[1][0])), K.enc_event(levels[1][1])
    canon = lambda ev: sorted(json.dumps([K.canon_var(v_), str(val)]) for v_, val in ev)    # noqa: E731
    same = K.sort_event([[K.mkvar(int(v_[1])), val] for v_, val in outs])
    return not c2 and canon(o2) in (canon(want), canon(same))


def _model_answers(case):
    """the answers of the Lean MODEL on this case, one per iteration order (same list as `by_order`), or None when the driver
    is not available.  The model is the correspondence-checked copy of the code the listed findings were written about."""
    try:
        m = canon_model(case, C.parse(C.LeanModel().ask(request(case))))
    except Exception:  # noqa: BLE001
        return None
    return m[1] if m and m[0] == "orders" else None


def _same_wrong_answer_as_model(case, r):
    """A wrong answer is attributed to a LISTED finding only when the model of the code gives the very same answer on this
    input (under the same iteration order): the listed finding explains THAT wrong answer, not any other wrong answer the real
    code may give on an input where the unchanged code is wrong as well.  (True / False, model's answer); True when unknown."""
    mans = _model_answers(case)
    if mans is None:
        return True, None
    strategies = K.id_strategies(joint(case))
    st = r.get("strategy")
    if st is None:
        real = r["unpatched"]
        return (real in mans), (mans[0] if mans else None)
    try:
        i = [tuple(s_) for s_ in strategies].index(tuple(st))
    except ValueError:
        return True, None
    if i >= len(mans) or i >= len(r["by_order"]):
        return True, None
    return r["by_order"][i] == mans[i], mans[i]


COARSE = ("F11", "normalisation:subscript", "inherited", "reassociation", "exchange:polarity", "exchange:conditions", "exchange:separation",
          "exchange:outcomes-collapse", "exchange:outcome-collides-with-condition",
          "conditional:shared-base", "conditional:condition-in-outcome-world")


def _coarse_key(case, r):
    """finding key of the failures that are explained by an identified broken step / another listed defect"""
    if r["kind"] in ("F11", "normalisation:subscript", "reassociation", "conditional:shared-base",
                     "conditional:condition-in-outcome-world") or \
            r["kind"].startswith("exchange:"):
        return json.dumps([r["kind"]])
    if r["kind"] == "inherited":
        why, detail = _explain(case, r["strategy"], 8)
        if why != "inherited":
            return json.dumps(["inherited", "unreproducible"])
        key07 = C07.case_key(detail["case07"])
        if key07 is None:
            return json.dumps(["inherited", "unreproducible"])
        return json.dumps(["inherited", json.loads(key07)])
    return None


SHRINK = K.Shrinker(PROP, ("outcomes", "conditions"), _evaluate, ("g", "outcomes", "conditions", "seed"))
# every C08 finding listed in known_findings.jsonl has a coarse (mechanism) key, none the key of a shrunk input: trying other
# shrink orders "to reach a listed key" (Shrinker.shrink_to_key) cannot succeed and costs 6 more full shrinks per failure
SHRINK.greedy_only = True
_SHRUNK = [0]


def _shrink_budget(per_process=5):
    """shrinking is expensive (hundreds of real runs); under a massive breakage only the first few failures of each worker
    process are shrunk, the others keep the key of the unshrunk input -- every C08 finding listed in known_findings.jsonl has
    a coarse (mechanism) key, so an unshrunk key is never excused: this only bounds the time, not the verdict"""
    _SHRUNK[0] += 1
    return _SHRUNK[0] <= per_process


def run_python(case):
    if case.get("kind") == "hashseeds":
        return _run_hashseeds(case)
    r = _evaluate(case, all_verdicts=True)
    by_order = r["by_order"]
    frag = bool(r["in_domain"]) and in_fragment_c(case)
    fragx = bool(r["in_domain"]) and not frag and in_fragment_x(case)
    distinct = []
    for x in by_order:
        if x not in distinct:
            distinct.append(x)
    first = by_order[0]
    shape = first[0] if first[0] != "ok" else (first[1] if isinstance(first[1], str) else first[1][0])
    jt = joint(case)
    rejected_possible = None
    if first == ["rejected"] and r["in_domain"]:
        g = {"nodes": G.all_nodes(case["g"]), "di": case["g"]["di"], "bi": case["g"]["bi"]}
        rejected_possible = S.check_zero(g, K.sort_event(case["conditions"]), case.get("seed", 0), n_models=4) is not None
    tags = {"n_nodes": len(G.all_nodes(case["g"])), "n_worlds": K.n_worlds(jt), "n_outcomes": len(case["outcomes"]),
            "n_conditions": len(case["conditions"]), "answer": shape, "order_dependent": len(distinct) > 1,
            "unpatched_differs": r["unpatched"] not in by_order, "in_domain": r["in_domain"],
            "has_bidirected": bool(case["g"]["bi"]), "failure_kind": r["kind"], "rejected_possible": rejected_possible,
            "single_world_leaves": all(C07.single_world(x[1]) for x in by_order if x[0] == "ok"),
            "condition_certainly_impossible": certainly_impossible(case["conditions"]),
            # task "hash seed": when the answer depends on the iteration order of a Python set, are all answers right?
            "order_dependent_verdict": r["order_verdict"], "gen": case.get("gen", "random"),
            # Props/C08.lean idcstar_sound_fragment: inside the fragment the answer is proved right
            # Props/C08.lean idcstar_own_recursion_terminates: no name is both an outcome and a condition
            # Props/C08.lean idcstar_terminates_shared_names: no self-intervened key
            "termination_theorem_applies": termination_theorem_applies(case),
            "shared_names": bool({int(v_[1]) for v_, _ in case["outcomes"]} & {int(v_[1]) for v_, _ in case["conditions"]}),
            "in_fragment_c": frag, "in_fragment_c_answered": bool(frag and shape in ("P", "sum", "prod", "frac")),
            # Props/C08.lean idcstar_sound_fragment_exchange: one factual condition, exchanged by rule 2
            "in_fragment_x": fragx, "in_fragment_x_answered": bool(fragx and shape in ("P", "sum", "prod", "frac")),
            "proved_fragment": "C" if frag else "X" if fragx else "static-only" if _static_fragment(case) else "none"}
    nontrivial = r["in_domain"] and K.n_worlds(jt) >= 1 and bool(case["g"]["di"] or case["g"]["bi"]) and \
        shape in ("P", "sum", "prod", "frac", "unidentifiable", "zero")
    answered = first[0] == "ok"
    # the model's own verdict on the two proved fragments (driver op idc_star_checked) must agree with the classification of
    # the REAL run whenever IDC* answered: part of the correspondence
    out = {"out": ["orders", by_order, ["frag", bool(frag and answered), bool(fragx and answered),
                                        termination_theorem_applies(case)]], "fail": r["fail"],
           "nontrivial": bool(nontrivial), "tags": tags}
    if r["fail"] and r["order_verdict"] == "mixed":
        out["fail"] += (" [the answer depends on the iteration order of a Python set (PYTHONHASHSEED): under another order "
                        "idc_star returns a CORRECT answer; verdict per distinct answer: %s]" % r["verdicts"])
    if r["fail"] and frag:
        # a theorem says this cannot happen: never a known finding
        out["fail"] += " [INSIDE the fragment of idcstar_sound_fragment (Props/C08.lean): the answer is proved correct there]"
        out["finding_key"] = json.dumps(["IN-FRAGMENT", r["kind"]])
    elif r["fail"] and fragx:
        out["fail"] += (" [INSIDE the exchange fragment of idcstar_sound_fragment_exchange (Props/C08.lean): the answer is proved "
                        "correct there]")
        out["finding_key"] = json.dumps(["IN-FRAGMENT-X", r["kind"]])
    elif r["fail"] and r["kind"] in COARSE:
        ck = _coarse_key(case, r)
        if r["order_verdict"] == "mixed":
            # the same input is answered correctly under one iteration order and wrongly under another
            ck = json.dumps(["order-dependent-verdict", json.loads(ck)])
        same, mans = _same_wrong_answer_as_model(case, r)
        if not same:
            # never listed: a wrong answer that is not the wrong answer of the code the findings describe
            ck = json.dumps(["differs-from-the-wrong-answer-of-the-modelled-code", json.loads(ck)])
            out["fail"] += (" [the MODEL of idc_star (Y0/Model/IdcStar.lean), about which the listed finding was written, answers "
                            f"{json.dumps(mans)[:300]} on this input: the listed finding does not explain this wrong answer]")
        out["finding_key"] = ck
    elif r["fail"] and not case.get("_noshrink") and _shrink_budget():
        small, key = SHRINK.shrink_to_key(case, r["kind"])
        out["shrunk"] = small
        out["finding_key"] = key
    elif r["fail"]:
        out["finding_key"] = SHRINK.key_of(case, r["kind"])
    return out


# ------------------------------------------------------------------------------------------ model side


def request(case):
    if case.get("kind") == "hashseeds":
        return None     # a clause about the Python runtime: no model side
    g = case["g"]
    gs = C.graph_sexp(g["nodes"], g["di"], g["bi"])
    return C.enc(["cf", "idc_star_checked", gs, case["outcomes"], case["conditions"], [list(s) for s in K.id_strategies(joint(case))]])


def _canon_one(rep):
    if rep[0] == "err":
        if rep[1] == "unidentifiable":
            return ["unidentifiable"]
        if rep[1] == "invalid" and rep[2] == "ImpossibleCondition":
            return ["rejected"]
        return ["err"]
    return ["ok", K.canon_expr(rep[1])]


def canon_model(case, rep):
    if rep[0] != "ok" or len(rep) < 3 or rep[1][0] != "frag":
        return ["model-error", rep]
    res = [_canon_one(r) for r in rep[2:]]
    answered = res[0][0] == "ok"
    return ["orders", res, ["frag", bool(str(rep[1][1]) == "1" and answered), bool(str(rep[1][2]) == "1" and answered),
                            str(rep[1][3]) == "1"]]


def shrink(case):
    if case.get("_noshrink") or case.get("kind") == "hashseeds":
        return
    r = _evaluate(case)
    if r["fail"] and r["kind"] not in COARSE:
        small, _ = SHRINK.shrink_to_key(case, r["kind"])
        yield dict(small, _noshrink=True)


def finding_key(case, res):
    if res.get("finding_key"):
        return res["finding_key"]
    r = _evaluate(case)
    if r["fail"] and r["in_domain"] and in_fragment_c(case):
        return json.dumps(["IN-FRAGMENT", r["kind"]])
    if r["fail"] and r["in_domain"] and in_fragment_x(case):
        return json.dumps(["IN-FRAGMENT-X", r["kind"]])
    return _coarse_key(case, r) or SHRINK.key_of(case, r["kind"])


MANIFEST = {
    "text": ("Partial proof. Lean theorems about the executable model of idc_star.py (Y0/Model/IdcStar.lean): IDC* rejects "
             "(ValueError) every condition for which ID* answers Zero, in particular every condition that violates "
             "effectiveness, before doing anything else; the model is defined for every fuel, an answer reached with some fuel "
             "is not changed by more fuel; every leaf of a returned estimand is a single-world interventional term (C06 part); "
             "Zero from line 3 (inconsistent joint event) is sound in every compatible functional SCM (by C18's cg_prob); the final division is fully modelled; the line-4 recursion terminates within |conditions| + 1 levels when no name is both an outcome and a condition (idcstar_own_recursion_terminates) and, without an explicit bound, on every input without self-intervened keys even when outcomes and conditions are copies of the same variables (idcstar_terminates_shared_names); after `fix:` b76144c the answer does not depend on the order in which Python iterates the set of re-associated keys (idcstar_reassociation_order_independent for every relabelled event with pairwise different event keys; idcstar_order_independent for the whole recursion on inputs without self-intervened keys: any permutation before the sort gives the same answer); the returned value EQUALS P(outcomes, conditions)/P(conditions) in every compatible functional SCM on the observational no-exchange fragment (idcstar_sound_fragment, via idstar_sound_fragment, the repaired conditional and marginalisation) and on the exchange fragment (idcstar_sound_fragment_exchange: one factual condition to which rule 2 applies, all or no outcomes descending from it; rule 2 of the do-calculus proved for functional SCMs on the noise space, no positivity assumption). Outside these fragments soundness of the returned value and of Zero from inside ID* has NO theorem (it inherits F10 from "
             "ID* and adds the bound-range part of F11 and an exchange step that leaves the remaining conditions un-subscripted); since `fix:` 1834c39 the exchange itself is licensed by the graphical premise of rule 2 given the other conditions (idcstar_exchange_licensed: m-separation in the sense of the C04 specification; idcstar_sound_fragment_exchange_multi_partial on the widened fragment InFragmentXs); the check decides it by correspondence with the real "
             "code plus exact evaluation of P(outcomes, conditions)/P(conditions) on sampled functional SCMs; every wrong answer is "
             "attributed to the first step of IDC*'s chain of claims that exact evaluation shows to be broken (reassociation, "
             "exchange:conditions, inherited from ID*, F11; exchange:separation is repaired) and those steps are listed as open findings -- a wrong answer is "
             "excused by a listed finding only if the model returns the same wrong answer on that input; six "
             "small defects were fixed in idc_star.py (0cb6c69, 8a76512, 9f8a537, 1a940ac: Zero when the exchange makes two outcomes one variable with two values -- the loop answers Zero only on such a conflict and otherwise builds the dict the old comprehension built: idcstar_collapse_zero_only_on_conflict, idcstar_no_collapse_no_zero, idcstar_exchange_dict --, 1834c39: the rule-2 test conditions on the other conditions, b76144c: the answer no longer depends on PYTHONHASHSEED, checked in fresh interpreters under several hash seeds) and the subscript part of F11 in dsl.py (a54a0f5)."),
    "note": ("Trusted: Lean kernel + standard axioms; hand-written models (ID*, counterfactual graph, d-separation of the sep "
             "family, Expression.conditional) tied to the code by differential testing under all set-iteration orders; the "
             "reading convention of estimands; sampled models (8 per case, P(conditions) > 0)."),
    "technique": "Lean 4 theorems (rejection of impossible conditions, soundness on two named fragments incl. rule 2 for functional SCMs, termination of the line-4 recursion, independence of the set-iteration order, vocabulary invariant) + differential correspondence (answers and fragment / termination-hypothesis verdicts) + exact-rational functional-SCM oracle + shrunk known findings",
}
