"""C03 — IDC estimands equal P(Y, Z | do X) / P(Z | do X); otherwise 'unidentifiable', never another failure.

Correspondence: `idc(Identification)` / `identify_outcomes(..., conditions=…)` of the real code vs the Lean model
`Y0.idc` (Y0/Model/Idc.lean, separation test = `MG.dSeparated` of Y0/Model/Sep.lean): outcome class and
estimand (structurally, up to the order of factors; on structural difference by exact value).  The order in which
the Python loop meets the conditions (set iteration) is passed to the model, which is parametric in it.

Oracle (from the property statement): exact-rational SCM evaluation (harness/oracles/scm_eval.py) of
P(y, z | do x) / P(z | do x) on several random positive compatible models at every assignment; any exception
other than `Unidentifiable` on a valid query is a failure.
"""
from __future__ import annotations

import atexit
import json
import random

from .. import common as C
from .. import enc_expr as E
from .. import forms as F
from .. import gen_graph as G
from ..oracles import id_run as R
from ..oracles import scm_eval as S

PROP = "C03"
RULE = ("ADMGs with 3-5 nodes (thorough: up to 6; half random, half mutations of textbook seeds) x pairwise disjoint "
        "X (possibly empty), Y, Z (1-2 each) through idc(Identification) and identify_outcomes(conditions=…); corpus = "
        "figure 6a of Shpitser-Pearl 2008 and the F2 witness; a malformed stream (overlaps, nodes outside the graph); "
        "structured graphs with 2-3 conditions one of which is an opened collider (or a descendant of one) between the "
        "tested condition and the outcome and no ancestor of either (tag nonancestor_conditions), 4-6 nodes; structured "
        "collider CHAINS Z <- A -> C1 <-> C2 (<-> C3) <- Y with every Ci a condition (3-4 conditions, 5-7 nodes; the parents on "
        "the two sides belong to different members of one conditioned district; seeds C03c / C04c); 2-4 exchangeable conditions in a "
        "row (several successive exchanges, optionally followed by a refusal through a bow arc at a treatment) and napkin-like graphs "
        "with extra conditions (final ID call through line 7 on a carried estimand), 4-7 nodes (gap review round 5). "
        "Every returned estimand is evaluated exactly on 2-3 random positive SCMs at every assignment. A case is "
        "non-trivial when rule 2 was tested with both outcomes (some exchange made or refused) or ID used lines 4-7."
        " A SMALL-SCOPE EXHAUSTIVE stream: every labelled ADMG on 2-3 nodes x every valid conditional query (thorough: all 3612; quick: a fixed 1-in-5 stride).")
ASSUMPTIONS = [
    "argument FORMS (harness/forms.py, harness/oracles/id_run.py id_slots; chosen deterministically per case, stored in the case, tagged form_*): treatments / outcomes / conditions as set / frozenset / list / tuple / dict keys / generator / iterator / map or a bare Variable for a one-element set; the Identification made by Identification(query=Query(..), graph=..) by keyword or by position, by from_parts(conditions=..), or by from_expression from P[X](Y | Z) and P(Y @ X | Z @ X) (valid queries only); identify_outcomes positional (conditions as fourth positional argument too) or by keyword; the graph through every public constructor. The model takes lists; independence of the form is a runtime clause decided by correspondence + oracle",
    "model class: positive discrete semi-Markovian SCMs with independent root latents (Y0/Spec/Scm.lean)",
    "the order in which the loop over `identification.conditions` (a Python set) meets the conditions is a parameter of the model; theorems hold for every order, the correspondence feeds the observed one",
    "`graph.topological_sort()` is a parameter `topo` of the model (trusted: networkx returns linear extensions)",
]
EXHAUSTIVE = {"quick": False, "thorough": False}
LEANCHECK_MODULES = ["Y0.Model.Idc", "Y0.Model.Id", "Y0.Props.C03"]
CORPUS_DIR = C.VERIF / "corpus" / "C03"
_drift = {"n": 0, "structural": 0}


def _corpus():
    out = []
    if CORPUS_DIR.exists():
        for f in sorted(CORPUS_DIR.glob("*.json")):
            d = json.loads(f.read_text())
            out.extend(d if isinstance(d, list) else [d])
    return out


def _slots(case):
    return R.id_slots(case["X"], case["Y"], case["Z"], case.get("via", "idc"))


def _forms(case):
    return F.forms_of(case, _slots(case))



def collider_chain_family(rng: random.Random, nmax=6):
    """structured generator for the rule-2 test with a CHAIN of conditioned colliders joined by bidirected edges
    (seeds C03c / C04c; mutation campaign B):

        Z (<- A -> | <-> A ->) C1 <-> C2 (<-> C3) (<- Y | <- B <- Y | <- B -> Y | <- B <-> Y),   query P(Y | do(X), Z, C1, .., Ck)

    Every Ci is a condition, so the path is open given the other conditions and the exchange of Z must be refused; the
    parents A (left) and Y / B (right) belong to DIFFERENT members of the district {C1..Ck} and are connected only through it.
    Optional: a treatment X (parent of Y, A or B), a direct effect Z -> Y (removed by the test, it leaves Z), one more
    bidirected edge A <-> C1 / C1 <-> C3 (other districts of the conditioned nodes), a chain member that is not conditioned
    but has a conditioned child (control: then the district is not inside the conditioning set), random relabelling.
    5-7 nodes, 3-4 conditions.  Returns (g, X, Y, Z, kind)."""
    names = []

    def new(tag):
        names.append(tag)
        return len(names) - 1

    k = rng.choice([2, 2, 2, 3])
    left = rng.choice(["fork", "fork", "bifork"])
    right = rng.choice(["di", "di", "di", "chain", "fork", "bi"])
    has_x = rng.random() < 0.45
    need = lambda: 3 + k + (right != "di") + has_x  # noqa: E731
    while need() > nmax:
        if right != "di":
            right = "di"
        elif has_x:
            has_x = False
        elif k > 2:
            k -= 1
        else:
            break
    a, z = new("A"), new("Z")
    cs = [new("C%d" % i) for i in range(k)]
    y = new("Y")
    b = new("B") if right != "di" else None
    x = new("X") if has_x else None
    di, bi = [], []
    if left == "fork":
        di += [[a, z], [a, cs[0]]]
    else:
        bi.append([a, z])
        di.append([a, cs[0]])
    for u, v in zip(cs, cs[1:]):
        bi.append([u, v])
    if right == "di":
        di.append([y, cs[-1]])
    elif right == "chain":
        di += [[y, b], [b, cs[-1]]]
    elif right == "fork":
        di += [[b, y], [b, cs[-1]]]
    else:
        bi.append([b, y])
        di.append([b, cs[-1]])
    if has_x:
        di.append([x, rng.choice([y, y, a] + ([b] if right == "fork" else []))])
    if rng.random() < 0.25:
        di.append([z, y])
    extra = rng.random()
    if extra < 0.12:
        bi.append([a, cs[0]])
    elif extra < 0.2 and k == 3:
        bi.append([cs[0], cs[2]])
    Z = [z] + list(cs)
    kind = "chain%d:%s-%s" % (k, left, right)
    if rng.random() < 0.12 and len(names) < nmax:
        # control: the last chain member is opened by a conditioned child instead of being conditioned itself
        d = new("D")
        di.append([cs[-1], d])
        Z = [z] + list(cs[:-1]) + [d]
        kind += "+desc"
    X = [x] if has_x else []
    n = len(names)
    perm = list(range(n))
    rng.shuffle(perm)
    dil = [[perm[u], perm[v]] for u, v in di]
    bil = [[perm[u], perm[v]] if rng.random() < 0.5 else [perm[v], perm[u]] for u, v in bi]
    rng.shuffle(dil)
    rng.shuffle(bil)
    nodes = list(range(n))
    rng.shuffle(nodes)
    return ({"nodes": nodes, "di": dil, "bi": bil}, sorted(perm[v] for v in X), [perm[y]], sorted(perm[v] for v in Z),
            kind + ("+x" if X else ""))



def multi_exchange_family(rng: random.Random, nmax=6):
    """structured generator for SEVERAL successive rule-2 exchanges (gap review round 5): 2-4 conditions Z1..Zk that are
    causes of the outcome without any back-door path (chain Z1 -> Z2 -> .. -> Y, or independent parents Zi -> Y), so that every
    one of them is exchanged, one after the other; optionally

      * one condition is made non-exchangeable (Zi <-> Y, or a child Y -> Zi): exchanges followed by the final normalisation,
      * a treatment X -> Y, optionally with a bow arc X <-> Y: all exchanges succeed and the final ID call REFUSES,
      * an extra ancestor U -> Z1 / isolated node.

    Returns (g, X, Y, Z, kind)."""
    names = []

    def new(tag):
        names.append(tag)
        return len(names) - 1

    k = rng.choice([2, 3, 3, 4])
    shape = rng.choice(["chain", "parents", "mixed"])
    bad = rng.choice(["none", "none", "bi", "child"])
    xkind = rng.choice(["none", "x", "bow", "bow"])
    extra = rng.random() < 0.3
    need = lambda: 1 + k + (xkind != "none") + extra  # noqa: E731
    while need() > nmax:
        if extra:
            extra = False
        elif k > 2:
            k -= 1
        else:
            xkind = "none"
    y = new("Y")
    zs = [new("Z%d" % i) for i in range(k)]
    di, bi = [], []
    for i, z in enumerate(zs):
        if shape == "chain" or (shape == "mixed" and i % 2 == 0):
            di.append([z, zs[i + 1]] if i + 1 < k else [z, y])
            if shape == "mixed" and i + 1 < k and rng.random() < 0.5:
                di.append([z, y])
        else:
            di.append([z, y])
    kind = "multi%d:%s" % (k, shape)
    if bad == "bi":
        bi.append([zs[rng.randrange(k)], y])
        kind += "+bi"
    elif bad == "child":
        j = rng.randrange(k)
        di = [e for e in di if e[0] != zs[j]]
        di.append([y, zs[j]])
        kind += "+child"
    X = []
    if xkind != "none":
        x = new("X")
        di.append([x, y])
        X = [x]
        if xkind == "bow":
            bi.append([x, y])
            kind += "+bow"
        else:
            kind += "+x"
    if extra:
        u = new("U")
        if rng.random() < 0.6:
            di.append([u, zs[0]])
    n = len(names)
    perm = list(range(n))
    rng.shuffle(perm)
    dil = [[perm[a], perm[b]] for a, b in di]
    bil = [[perm[a], perm[b]] if rng.random() < 0.5 else [perm[b], perm[a]] for a, b in bi]
    rng.shuffle(dil)
    rng.shuffle(bil)
    nodes = list(range(n))
    rng.shuffle(nodes)
    return ({"nodes": nodes, "di": dil, "bi": bil}, sorted(perm[v] for v in X), [perm[y]], sorted(perm[v] for v in zs), kind)


def idc_napkin_family(rng: random.Random, nmax=7):
    """IDC whose final ID call goes through line 7 on a carried estimand (gap review round 5): a napkin-like graph of
    R.napkin_family (5-6 nodes) with 1-2 extra nodes as conditions: a parent of an outcome (exchanged: ID of P(Y | do(X, Z))),
    a child of an outcome (not exchangeable: ID of P(Y, Z | do(X)) and the normalisation), or the napkin's own R / W nodes.
    Returns (g, X, Y, Z, kind)."""
    g, X, Y, kind = R.napkin_family(rng, nmax - rng.choice([1, 1, 2]))
    g = {"nodes": list(g["nodes"]), "di": [list(e) for e in g["di"]], "bi": [list(e) for e in g["bi"]]}
    nodes = G.all_nodes(g)
    Z = []
    n = max(nodes) + 1
    room = nmax - len(nodes)
    tags = []
    for _ in range(min(room, rng.choice([1, 1, 2]))):
        z = n
        n += 1
        g["nodes"].append(z)
        t = rng.random()
        yv = rng.choice(Y)
        if t < 0.45:
            g["di"].append([z, yv])
            tags.append("par")
        elif t < 0.8:
            g["di"].append([yv, z])
            tags.append("child")
        else:
            g["di"].append([z, yv])
            g["bi"].append([z, yv])
            tags.append("bow")
        Z.append(z)
    if not Z or rng.random() < 0.25:
        free = [v for v in nodes if v not in X and v not in Y]
        if free:
            Z.append(rng.choice(free))
            tags.append("own")
    if not Z:
        return None
    return g, X, Y, sorted(set(Z)), "idcnapkin:" + kind + "+" + "".join(sorted(set(tags)))


def cases(rng: random.Random, tier: str):
    return [F.assign(c, _slots(c)) for c in _cases(rng, tier)]


def _cases(rng: random.Random, tier: str):
    nmax = 5 if tier == "quick" else 6
    out = [dict(c) for c in _corpus()]
    # structured: several conditions, one of them an opened collider (or a descendant of one) between the tested
    # condition and the outcome that is not an ancestor of either (R.collider_family): the rule-2 test must refuse
    ns = 500 if tier == "quick" else 3000
    for k in range(ns):
        g, X, Y, Z, kind = R.collider_family(rng, (4, 5, 5, 6)[k % 4])
        out.append({"g": g, "X": X, "Y": Y, "Z": Z, "via": "idc" if k % 5 else "identify_outcomes",
                    "label": "structured:" + kind, "seed": rng.randrange(1 << 30)})
    n = 2600 if tier == "quick" else 18000
    for k in range(n):
        g = R.gen_graph(rng, 3, nmax if k % 3 else 4)
        nodes = G.all_nodes(g)
        if rng.random() < 0.08:
            kind, X, Y = R.malformed_query(rng, nodes)
            Z = [v for v in nodes if v not in X and v not in Y][:1] or nodes[:1]
            if kind in ("outside_y",) and len(Y) > 1:
                Y = [y for y in Y if y >= 90]      # mixed in/out-of-graph outcomes make the verdict order dependent
            out.append({"g": g, "X": X, "Y": Y, "Z": Z, "via": "idc", "label": "malformed:" + kind, "seed": k})
            continue
        q = R.rand_query(rng, nodes, with_z=True)
        if q is None:
            continue
        out.append({"g": g, "X": q[0], "Y": q[1], "Z": q[2], "via": "idc" if rng.random() < 0.8 else "identify_outcomes",
                    "label": "random", "seed": rng.randrange(1 << 30)})
    # structured: a chain of conditioned colliders joined by bidirected edges between the tested condition and the
    # outcome (collider_chain_family; seeds C03c / C04c): 3-4 conditions, 5-7 nodes, binary variables from 6 nodes on
    nc = 220 if tier == "quick" else 1500
    for k in range(nc):
        g, X, Y, Z, kind = collider_chain_family(rng, (5, 6, 6, 7)[k % 4])
        out.append({"g": g, "X": X, "Y": Y, "Z": Z, "via": "idc" if k % 5 else "identify_outcomes",
                    "label": "structured:" + kind, "seed": rng.randrange(1 << 30)})
    # structured (gap review round 5): several successive exchanges (2-4 conditions), exchanges followed by a refusal,
    # IDC whose final ID call takes line 7 on a carried estimand; 4-7 nodes
    nm = 160 if tier == "quick" else 1200
    for k in range(nm):
        g, X, Y, Z, kind = multi_exchange_family(rng, (4, 5, 6, 6)[k % 4])
        out.append({"g": g, "X": X, "Y": Y, "Z": Z, "via": "idc" if k % 5 else "identify_outcomes",
                    "label": "structured:" + kind, "seed": rng.randrange(1 << 30)})
    nn = 120 if tier == "quick" else 1000
    for k in range(nn):
        r = idc_napkin_family(rng, (6, 7, 7)[k % 3])
        if r is None:
            continue
        g, X, Y, Z, kind = r
        out.append({"g": g, "X": X, "Y": Y, "Z": Z, "via": "idc" if k % 5 else "identify_outcomes",
                    "label": "structured:" + kind, "seed": rng.randrange(1 << 30)})
    # SMALL-SCOPE EXHAUSTIVE stream (session 4; appended): every labelled ADMG on 2-3 nodes x every valid conditional query
    # (X, Y, Z pairwise disjoint, Y and Z non-empty: 2 / 18 per graph = 3612 cases) in the thorough tier, a fixed 1-in-5
    # stride of it in the quick tier
    k = 0
    for n3 in (2, 3):
        for g in G.all_labelled_admgs(n3):
            for r in G.all_role_assignments(n3, ("X", "Y", "Z"), ("Y", "Z")):
                k += 1
                if tier == "thorough" or k % 5 == 0:
                    out.append({"g": g, "X": r["X"], "Y": r["Y"], "Z": r["Z"], "via": "idc" if k % 3 else "identify_outcomes",
                                "label": "smallscope:%d" % n3, "seed": rng.randrange(1 << 30)})
    return out


def is_valid(case):
    V = set(G.all_nodes(case["g"]))
    X, Y, Z = set(case["X"]), set(case["Y"]), set(case["Z"])
    return (bool(Y) and bool(Z) and not (X & Y) and not (X & Z) and not (Y & Z) and X <= V and Y <= V and Z <= V
            and R.is_acyclic(case["g"]))


def n_models(case):
    return 3 if len(G.all_nodes(case["g"])) <= 4 else 2


def semantic_check(case, expr):
    g = case["g"]
    for i in range(n_models(case)):
        seed = (case.get("seed", 0) * 31 + i * 7919 + 11) & 0x7FFFFFFF
        scm = S.random_scm(random.Random(seed), g, max_states=250)
        truth = scm.cond_do_table(case["X"], case["Y"], case["Z"])
        try:
            est = S.eval_expr(expr, scm)
        except (ValueError, ZeroDivisionError) as e:
            return f"estimand cannot be evaluated on the observational joint of a compatible positive SCM: {e}"
        d = S.tables_differ(est, truth, scm.card)
        if d is not None:
            return (f"estimand != P(Y,Z|do X)/P(Z|do X) on a random positive SCM (seed {seed}, "
                    f"{json.dumps(scm.describe())}) at {d}")
    return None


_memo = {}


def _run(case):
    """the real run; memoised per process (`request` and `canon_model` run serially in the main process and the run is
    deterministic within a process)"""
    fm = _forms(case)
    k = json.dumps([case["g"], case["X"], case["Y"], case["Z"], case.get("via", "idc"), fm], sort_keys=True)
    if k not in _memo:
        if len(_memo) > 50000:
            _memo.clear()
        _memo[k] = R.run_identify(case["g"], case["X"], case["Y"], via=case.get("via", "idc"), conditions=case["Z"], forms=fm)
    return _memo[k]


def _nonancestor_conditions(case):
    """conditions that are not ancestors (in G) of the outcomes or of another condition: only a collider or a
    descendant of one can make such a condition matter for the rule-2 test"""
    g = case["g"]
    pa = {}
    for u, v in g["di"]:
        pa.setdefault(v, set()).add(u)
    out = 0
    for z in set(case["Z"]):
        anc, todo = set(), list((set(case["Y"]) | set(case["Z"])) - {z})
        while todo:
            v = todo.pop()
            if v in anc:
                continue
            anc.add(v)
            todo.extend(pa.get(v, ()))
        out += z not in anc
    return out


def run_python(case):
    g = case["g"]
    r = _run(case)
    valid = is_valid(case)
    V = G.all_nodes(g)
    exchanged = [c for c, ok in r["rule2"] if ok]
    tags = {"kind": case.get("label", "?").split(":")[0], "n_nodes": len(V), "valid": valid,
            "outcome": "ok" if r["exc"] is None else r["exc"], "n_x": len(case["X"]), "n_y": len(case["Y"]),
            "n_z": len(case["Z"]), "exchanges": len(exchanged), "rule2_refused": any(not ok for _, ok in r["rule2"]),
            "via": case.get("via", "idc")}
    tags.update(R.line_tags(r["lines"]))
    tags.update(R.id_form_tags(case, _forms(case)))
    if valid:
        tags["nonancestor_conditions"] = _nonancestor_conditions(case)
    if tags["kind"] == "structured":
        tags["structured_kind"] = case["label"].split(":", 1)[1].replace("collider:", "").split("+")[0]
    fail = r["exc_msg"] if r["exc"] == "ConstructorFault" else None
    if valid and fail is None:
        if r["exc"] not in (None, "Unidentifiable"):
            fail = f"IDC failed with {r['exc']} ({r['exc_msg']}) on a valid query: neither an estimand nor 'unidentifiable'"
        elif r["exc"] is None:
            fail = semantic_check(case, r["expr"])
            tags["evaluated_on_scms"] = n_models(case)
        if fail is None and r["mutated"]:
            fail = r["mutated"]
    nontrivial = valid and (bool(r["rule2"]) and (bool(exchanged) or tags["rule2_refused"])) and r["exc"] in (None, "Unidentifiable")
    return {"out": r["out"], "fail": fail, "nontrivial": nontrivial, "tags": tags}


def request(case):
    V = set(G.all_nodes(case["g"]))
    Y = set(case["Y"])
    if len(Y) > 1 and (Y - V or Y & (set(case["X"]) | set(case["Z"]))):
        # malformed query with several outcomes of which some raise inside the separation test (outside the graph /
        # also conditioned on): `all(...)` short-circuits, so which outcome is met first (Python set iteration)
        # decides between an error and `False`; no model side for these
        return None
    r = _run(case)
    tape, _ = R.tape_sexp(r["tape"])
    exchanged = [c for c, ok in r["rule2"] if ok]
    pref = exchanged + [z for z in sorted(set(case["Z"])) if z not in exchanged]
    g = case["g"]
    gs = C.graph_sexp(G.all_nodes(g), g["di"], g["bi"])
    op = "identify_outcomes_c" if case.get("via") == "identify_outcomes" else "idc"
    return C.enc(["id", op, gs, sorted(set(case["X"])), sorted(set(case["Y"])), pref, tape])


def canon_model(case, rep):
    m = R.model_out(rep)
    if m[0] != "ok":
        return m
    r = _run(case)
    if r["out"] == m:
        _drift["structural"] += 1
        return m
    if r["out"][0] != "ok" or not is_valid(case):
        return m
    try:
        mexpr = E.dec_expr(m[1])
    except Exception as e:  # noqa: BLE001
        return ["undecodable-model-expression", str(e)[:100]]
    for i in range(3):
        scm = S.random_scm(random.Random(case.get("seed", 0) * 131 + i), case["g"], max_states=250)
        try:
            a = S.eval_expr(mexpr, scm)
            b = S.eval_expr(r["expr"], scm)
        except (ValueError, ZeroDivisionError):
            return m
        if S.tables_differ(a, b, scm.card) is not None:
            return m
    _drift["n"] += 1
    return r["out"]


def _report_drift():
    if _drift["n"] or _drift["structural"]:
        print(f"[C03] correspondence: structural_agreement={_drift['structural']} syntactic_drift(value-only agreement)={_drift['n']}")


atexit.register(_report_drift)


def shrink(case):
    for g in G.shrink_graph(case["g"]):
        live = set(G.all_nodes(g))
        c = dict(case)
        c["g"] = g
        for k in ("X", "Y", "Z"):
            c[k] = [v for v in case[k] if v in live]
        if c["Y"] and c["Z"]:
            yield c
    for key in ("X", "Y", "Z"):
        if len(case[key]) > (0 if key == "X" else 1):
            for k in range(len(case[key])):
                c = dict(case)
                c[key] = case[key][:k] + case[key][k + 1:]
                yield c


def finding_key(case, res):
    g = case["g"]
    return json.dumps({"di": sorted(map(list, g["di"])), "bi": sorted(sorted(e) for e in g["bi"]),
                       "nodes": sorted(G.all_nodes(g)), "X": sorted(case["X"]), "Y": sorted(case["Y"]),
                       "Z": sorted(case["Z"])}, sort_keys=True)


MANIFEST = {
    "text": ("Lean model of idc() (rule-2 test, exchange, final normalisation; separation test = the model of "
             "are_d_separated from Y0/Model/Sep.lean, F2-fixed) tied to the real code by differential correspondence. "
             "Theorems: idc_sound (C03 at full strength: whenever IDC returns an estimand on a valid conditional query over "
             "a well-formed acyclic graph, its value equals P(y,z|do x)/P(z|do x) in EVERY compatible positive "
             "semi-Markovian SCM at every assignment; idc_sound_acyclic with an executable topological sorter), "
             "rule2_sound (rule 2 of the do-calculus for the model of are_d_separated and the SCM class, arbitrary lists "
             "X, Y, Z: proved from the c-factor calculus plus C04's moralisation theorem lifted from pairs to a set of "
             "targets — IdcRule2.lean, IdcSepSet.lean), idc_total / idc_total_dsep (valid conditional query => the loop "
             "terminates with an estimand or 'unidentifiable', never another failure; e / sum_Y e cannot divide by Zero), "
             "idc_order_irrelevant (the order in which the set of conditions is iterated does not change the value), "
             "idc_sound_of_rule2 (any separation test satisfying rule 2). All rest on C01's idAlg_sound. Every run also "
             "evaluates each returned estimand exactly on random compatible SCMs against P(y,z|do x)/P(z|do x)."),
    "note": ("Trusted: Lean kernel; axioms propext/Classical.choice/Quot.sound; SCM class and `den` (Y0/Spec); "
             "`topological_sort` as a parameter (TopoSound); the model is tied to the code by sampling."),
    "technique": "Lean 4 theorems about an executable model + differential correspondence + exact-rational SCM evaluation oracle",
}
