"""Shared infrastructure of the correspondence harness.

* locating the y0 checkout under test (env Y0_REPO, default /repo) and importing it in-process
* s-expression encode / parse, canonicalisation
* the Lean model driver (compiled `y0driver`, fallback `lake env lean --run Driver.lean`)
* Lean build + audit (`#print axioms`, forbidden tokens)
* evidence / replay / known-findings files and the common decision procedure (DESIGN.md section 0)
"""
from __future__ import annotations

import json
import os
import random
import re
import subprocess
import sys
import time
from pathlib import Path

VERIF = Path(__file__).resolve().parent.parent
LEAN_DIR = VERIF / "lean"
REPO = Path(os.environ.get("Y0_REPO", "/repo")).resolve()
EVIDENCE_DIR = Path(os.environ.get("VERIF_EVIDENCE_DIR", VERIF / "evidence"))
REPLAY_DIR = Path(os.environ.get("VERIF_REPLAY_DIR", VERIF / "replays"))
KNOWN_FINDINGS = VERIF / "known_findings.jsonl"
ALLOWED_AXIOMS = {"propext", "Classical.choice", "Quot.sound"}

TRUSTED_BASE = [
    "Lean 4.33.0 kernel (thorough tier: leanchecker re-check of the compiled modules)",
    "axioms allowed in registered theorems: propext, Classical.choice, Quot.sound (audited by #print axioms on every run); no sorry/admit/native_decide/bv_decide/user axioms",
    "hand-written Lean models under lean/Y0/Model tied to /repo only by this run's correspondence check (differential sampling, not proof)",
    "specifications under lean/Y0/Spec (relational graph definitions, SCM semantics) are read, not verified",
    "networkx, Python sorted()/set/frozenset iteration, dataclass ordering are modelled, not verified",
]


def use_repo():
    """Make `import y0` resolve to the checkout under test."""
    src = str(REPO / "src")
    if src not in sys.path:
        sys.path.insert(0, src)
    os.environ.setdefault("Y0_VERIF", "1")
    import warnings

    warnings.filterwarnings("ignore")
    import y0  # noqa: F401

    p = Path(y0.__file__).resolve()
    if REPO not in p.parents:
        raise RuntimeError(f"y0 imported from {p}, not from {REPO}")


# ----------------------------------------------------------------------------- s-expressions


def enc(x) -> str:
    if isinstance(x, (list, tuple)):
        return "(" + " ".join(enc(y) for y in x) + ")"
    if isinstance(x, bool):
        return "true" if x else "false"
    return str(x)


_tok = re.compile(r"[()]|[^\s()]+")


def parse(s: str):
    stack = [[]]
    for t in _tok.findall(s):
        if t == "(":
            stack.append([])
        elif t == ")":
            top = stack.pop()
            stack[-1].append(top)
        else:
            stack[-1].append(t)
    if len(stack) != 1 or len(stack[0]) != 1:
        raise ValueError(f"bad sexp: {s!r}")
    return stack[0][0]


def sort_key(x):
    if isinstance(x, list):
        return (1, [sort_key(y) for y in x])
    try:
        return (0, [(0, int(x), "")])
    except ValueError:
        return (0, [(1, 0, x)])


def as_set(xs):
    """canonical form of a list that is a set: sorted, de-duplicated"""
    out = []
    for x in sorted(xs, key=sort_key):
        if not out or out[-1] != x:
            out.append(x)
    return out


def graph_sexp(nodes, di, bi):
    return ["graph", list(nodes), [list(e) for e in di], [list(e) for e in bi]]


def canon_graph(g):
    """(graph nodes di bi) -> canonical: sorted node set, sorted di set, bi with sorted endpoints"""
    assert g[0] == "graph", g
    nodes = as_set([str(n) for n in g[1]])
    di = as_set([[str(u), str(v)] for u, v in g[2]])
    bi = as_set([sorted([str(u), str(v)], key=sort_key) for u, v in g[3]])
    return ["graph", nodes, di, bi]


# ----------------------------------------------------------------------------- Lean driver


class LeanModel:
    """Batch interface to the model driver: lines in, lines out."""

    def __init__(self):
        exe = LEAN_DIR / ".lake" / "build" / "bin" / "y0driver"
        if exe.exists():
            self.cmd = [str(exe)]
        else:
            self.cmd = ["lake", "env", "lean", "--run", "Driver.lean"]
        self.calls = 0

    def ask_many(self, lines: list[str], timeout: int = 3600) -> list[str]:
        if not lines:
            return []
        data = "\n".join(lines) + "\n"
        p = subprocess.run(self.cmd, input=data, capture_output=True, text=True, cwd=LEAN_DIR, timeout=timeout)
        out = p.stdout.split("\n")
        if out and out[-1] == "":
            out.pop()
        if len(out) != len(lines):
            raise RuntimeError(
                f"driver returned {len(out)} lines for {len(lines)} requests; stderr={p.stderr[-2000:]}"
            )
        self.calls += len(lines)
        return out

    def ask(self, line: str) -> str:
        return self.ask_many([line])[0]


# ----------------------------------------------------------------------------- build + audit

FORBIDDEN = re.compile(
    r"\bsorry\b|\badmit\b|^\s*axiom\s|\bnative_decide\b|\bbv_decide\b|implemented_by|\bunsafe\s|maxHeartbeats\s+0\b"
)


def strip_comments(src: str) -> str:
    # remove block comments (nested) and line comments
    out = []
    i, depth, n = 0, 0, len(src)
    while i < n:
        if src.startswith("/-", i):
            depth += 1
            i += 2
        elif depth and src.startswith("-/", i):
            depth -= 1
            i += 2
        elif depth:
            if src[i] == "\n":
                out.append("\n")
            i += 1
        elif src.startswith("--", i):
            while i < n and src[i] != "\n":
                i += 1
        else:
            out.append(src[i])
            i += 1
    return "".join(out)


def lean_build() -> tuple[bool, str]:
    t0 = time.time()
    p = subprocess.run(["lake", "build"], cwd=LEAN_DIR, capture_output=True, text=True)
    ok = p.returncode == 0
    return ok, (p.stdout + p.stderr)[-6000:] + f"\n[lake build {time.time()-t0:.1f}s rc={p.returncode}]"


def forbidden_tokens() -> list[str]:
    hits = []
    for f in sorted((LEAN_DIR / "Y0").rglob("*.lean")) + [LEAN_DIR / "Driver.lean"]:
        txt = strip_comments(f.read_text())
        for ln, line in enumerate(txt.split("\n"), 1):
            if FORBIDDEN.search(line):
                hits.append(f"{f.relative_to(LEAN_DIR)}:{ln}: {line.strip()[:120]}")
    return hits


def lean_audit(prop: str) -> dict:
    """Run Y0/Audit/<prop>.lean; return {theorem: [axioms]} and problems."""
    f = LEAN_DIR / "Y0" / "Audit" / f"{prop}.lean"
    res = {"theorems": {}, "problems": [], "cmd": f"cd lean && lake build && lake env lean Y0/Audit/{prop}.lean"}
    if not f.exists():
        res["problems"].append(f"no audit file {f}")
        return res
    wanted = re.findall(r"^#print axioms\s+(\S+)", f.read_text(), flags=re.M)
    p = subprocess.run(["lake", "env", "lean", str(f.relative_to(LEAN_DIR))], cwd=LEAN_DIR, capture_output=True, text=True)
    out = p.stdout + p.stderr
    if p.returncode != 0:
        res["problems"].append("audit file failed to elaborate: " + out[-1500:])
    # messages look like: "'Y0.foo' depends on axioms: [propext, Quot.sound]" or "... does not depend on any axioms"
    flat = re.sub(r"\s+", " ", out)
    # a theorem name may itself contain primes (foo', foo''): anchor on the closing quote that precedes the fixed text
    for m in re.finditer(r"'([^\s']\S*)' depends on axioms: \[([^\]]*)\]", flat):
        res["theorems"][m.group(1)] = [a.strip() for a in m.group(2).split(",") if a.strip()]
    for m in re.finditer(r"'([^\s']\S*)' does not depend on any axioms", flat):
        res["theorems"][m.group(1)] = []
    for t in wanted:
        if t not in res["theorems"] and not any(k.endswith("." + t) or k == t for k in res["theorems"]):
            res["problems"].append(f"theorem {t} not reported by #print axioms")
    for t, axs in res["theorems"].items():
        bad = [a for a in axs if a not in ALLOWED_AXIOMS]
        if bad:
            res["problems"].append(f"theorem {t} depends on non-standard axioms {bad}")
    res["wanted"] = wanted
    return res


# ----------------------------------------------------------------------------- source fingerprints

FINGERPRINTS = VERIF / "fingerprints.json"


def anchor_files(prop: str) -> list[str]:
    for line in (VERIF / "properties.jsonl").read_text().splitlines():
        if line.strip():
            d = json.loads(line)
            if d["id"] == prop:
                return list(d["anchors"]["files"])
    return []


def ast_fingerprint(path: Path) -> str:
    """hash of the AST (comments / formatting do not matter); 'missing' / 'syntax-error' when it cannot be computed"""
    import ast
    import hashlib

    try:
        tree = ast.parse(path.read_text())
    except FileNotFoundError:
        return "missing"
    except SyntaxError:
        return "syntax-error"
    return hashlib.sha1(ast.dump(tree, include_attributes=False).encode()).hexdigest()


def changed_anchor_files(prop: str) -> list[str]:
    """anchored source files of `prop` whose AST differs from the fingerprint recorded at the last integration
    (tools/update_fingerprints.py).  A change is never a verdict; it only escalates the search depth of the run."""
    try:
        rec = json.loads(FINGERPRINTS.read_text())
    except Exception:
        return []
    out = []
    for f in anchor_files(prop):
        if f in rec and ast_fingerprint(REPO / f) != rec[f]:
            out.append(f)
    return out


# ----------------------------------------------------------------------------- findings / evidence


def load_known(prop: str) -> list[dict]:
    out = []
    if KNOWN_FINDINGS.exists():
        for line in KNOWN_FINDINGS.read_text().splitlines():
            line = line.strip()
            if not line or line.startswith("#"):
                continue
            if line.startswith("fixed:"):
                continue
            d = json.loads(line)
            if d.get("property") == prop and d.get("status", "open") == "open":
                out.append(d)
    return out


def write_replay(prop: str, name: str, payload: dict) -> Path:
    REPLAY_DIR.mkdir(exist_ok=True)
    p = REPLAY_DIR / f"{prop}_{name}.json"
    p.write_text(json.dumps(payload, indent=1, sort_keys=True, default=str))
    return p


def get_seed() -> int:
    try:
        return int(os.environ.get("VERIF_SEED", "0"))
    except ValueError:
        return 0


class Stats:
    """generator-distribution bookkeeping for the evidence file"""

    def __init__(self):
        self.c: dict[str, dict[str, int]] = {}

    def add(self, key: str, val):
        d = self.c.setdefault(key, {})
        d[str(val)] = d.get(str(val), 0) + 1

    def dump(self):
        return {k: dict(sorted(v.items())) for k, v in sorted(self.c.items())}


def write_evidence(prop: str, tier: str, seed: int, coverage: dict, assumptions: list[str], wall: float, violations: int):
    tier = "thorough" if tier == "thorough" else "quick"
    EVIDENCE_DIR.mkdir(exist_ok=True)
    ev = {
        "property_id": prop,
        "tier": tier,
        "seed": seed,
        "level": "proof",
        "coverage": coverage,
        "assumptions": assumptions,
        "wall_s": round(wall, 2),
        "violations": violations,
    }
    (EVIDENCE_DIR / f"{prop}.json").write_text(json.dumps(ev, indent=1, default=str))
