"""The common decision procedure of every check (DESIGN.md section 0).

A property module (harness/props/cXX.py) provides

  PROP, RULE, ASSUMPTIONS
  cases(rng, tier)        -> list of JSON-serialisable case dicts (corpus first)
  run_python(case)        -> {"out": canonical output of the real code,
                              "fail": None | str   (independent oracle applied to the real code),
                              "nontrivial": bool, "tags": {stat-name: value}}
  request(case)           -> request line for the Lean model driver  (None: case has no model side)
  canon_model(case, sexp) -> canonical output of the model, comparable with run_python()["out"]
  shrink(case)            -> iterable of smaller candidate cases                     (optional)
  finding_key(case, res)  -> string that identifies the failing input for known_findings (optional)
"""
from __future__ import annotations

import hashlib
import json
import multiprocessing as mp
import os
import random
import sys
import time
import traceback

from . import common as C

_MOD = None


def _init(modname):
    global _MOD
    import importlib

    C.use_repo()
    _MOD = importlib.import_module(modname)
    if os.environ.get("VERIF_LINECOV", "1") == "1":
        from . import linecov

        linecov.start(C.REPO, C.anchor_files(getattr(_MOD, "PROP", "")))


def _run_one(case):
    r = _run_one_raw(case)
    if os.environ.get("VERIF_LINECOV", "1") == "1" and isinstance(r, dict):
        from . import linecov

        d = linecov.delta()
        if d:
            r["_cov"] = d
    return r


def _run_one_raw(case):
    try:
        return _MOD.run_python(case)
    except Exception as e:  # harness bug, not a verdict
        return {"out": ["harness-error", type(e).__name__, str(e)[:300]], "fail": None, "nontrivial": False,
                "tags": {"harness_error": type(e).__name__}, "harness_error": traceback.format_exc()[-1500:]}


def run_python_all(mod, cases, procs):
    if procs <= 1 or len(cases) < 32:
        _init(mod.__name__)
        return [_run_one(c) for c in cases]
    ctx = mp.get_context("fork")
    with ctx.Pool(procs, initializer=_init, initargs=(mod.__name__,)) as pool:
        return pool.map(_run_one, cases, chunksize=max(1, len(cases) // (procs * 8)))


def case_id(case) -> str:
    return hashlib.sha1(json.dumps(case, sort_keys=True, default=str).encode()).hexdigest()[:12]


def default_key(case, res) -> str:
    return json.dumps(case, sort_keys=True, default=str)


def compare(mod, model, cases, results):
    """returns list of (index, model_out) where model and python differ; also model outputs"""
    reqs = [mod.request(c) for c in cases]
    idx = [i for i, r in enumerate(reqs) if r is not None]
    lines = [reqs[i] for i in idx]
    replies = model.ask_many(lines)
    dis = []
    for i, rep in zip(idx, replies):
        try:
            m = mod.canon_model(cases[i], C.parse(rep))
        except Exception as e:
            m = ["model-reply-error", rep[:200], str(e)[:100]]
        if m != results[i]["out"]:
            dis.append((i, m))
    return dis, len(idx)


def shrink_case(mod, case, pred, budget=300):
    """greedy shrinking while pred(case) holds"""
    if not hasattr(mod, "shrink"):
        return case
    cur = case
    improved = True
    while improved and budget > 0:
        improved = False
        for cand in mod.shrink(cur):
            budget -= 1
            if budget <= 0:
                break
            try:
                if pred(cand):
                    cur = cand
                    improved = True
                    break
            except Exception:
                continue
    return cur


def main(mod, argv=None):
    import argparse

    ap = argparse.ArgumentParser()
    ap.add_argument("--tier", default=os.environ.get("VERIF_TIER", "quick"))
    ap.add_argument("--replay", default=None)
    ap.add_argument("--procs", type=int, default=int(os.environ.get("VERIF_PROCS", "8")))
    args = ap.parse_args(argv)
    tier = "thorough" if args.tier == "thorough" else "quick"
    prop = mod.PROP
    seed = C.get_seed()
    t0 = time.time()

    if args.replay:
        return replay(mod, args.replay)

    # 1. build + audit --------------------------------------------------------------------------
    build_ok, build_log = C.lean_build()
    proof_problems = []
    audit = {"theorems": {}, "problems": [], "cmd": "", "wanted": []}
    if not build_ok:
        proof_problems.append("lake build failed:\n" + build_log[-3000:])
    else:
        audit = C.lean_audit(prop)
        proof_problems += audit["problems"]
        proof_problems += ["forbidden token: " + h for h in C.forbidden_tokens()]
        if tier == "thorough" and hasattr(mod, "LEANCHECK_MODULES"):
            import subprocess

            p = subprocess.run(["lake", "env", "leanchecker"] + list(mod.LEANCHECK_MODULES), cwd=C.LEAN_DIR,
                               capture_output=True, text=True)
            if p.returncode != 0:
                proof_problems.append("leanchecker failed: " + (p.stdout + p.stderr)[-1500:])
    obligations = len(audit.get("wanted", [])) or len(getattr(mod, "THEOREMS", [])) or 1
    discharged = 0 if not build_ok else sum(
        1 for t in audit.get("wanted", [])
        if any((k == t or k.endswith("." + t)) and all(a in C.ALLOWED_AXIOMS for a in v)
               for k, v in audit["theorems"].items()))

    # 2. correspondence + oracle on the real code ---------------------------------------------
    C.use_repo()
    rng = random.Random(seed * 1000003 + 17)
    # a changed anchored source file is never a verdict by itself; it escalates the generator of this run
    changed = C.changed_anchor_files(prop)
    gen_tier = tier
    if changed and tier == "quick" and os.environ.get("VERIF_NO_ESCALATE") != "1":
        gen_tier = getattr(mod, "ESCALATED_TIER", "thorough")
    cases = list(mod.cases(rng, gen_tier))
    if gen_tier != tier and not hasattr(mod, "ESCALATED_TIER"):
        # keep an escalated quick run within a few times the quick budget: the corpus / structured head of the
        # thorough stream is kept, the rest is sub-sampled (deterministically) to 3x the size of the quick stream
        nq = len(list(mod.cases(random.Random(seed * 1000003 + 17), "quick")))
        cap = max(3 * nq, 20000)
        if len(cases) > cap:
            head, rest = cases[:500], cases[500:]
            pick = sorted(random.Random(seed + 99).sample(range(len(rest)), cap - len(head)))
            cases = head + [rest[i] for i in pick]
            gen_tier = f"thorough-subsampled-to-{cap}"
    results = run_python_all(mod, cases, args.procs)
    harness_errors = [(i, r) for i, r in enumerate(results) if "harness_error" in r]
    model = C.LeanModel()
    disagreements, compared = [], 0
    model_error = None
    if build_ok:
        try:
            disagreements, compared = compare(mod, model, cases, results)
        except Exception as e:
            model_error = f"{type(e).__name__}: {e}"
            proof_problems.append("model driver failed: " + model_error)

    cov_seen = set()
    for r in results:
        for f, l in r.pop("_cov", []) or []:
            cov_seen.add((f, l))
    stats = C.Stats()
    nontrivial = set()
    for c, r in zip(cases, results):
        for k, v in (r.get("tags") or {}).items():
            stats.add(k, v)
        if r.get("nontrivial"):
            nontrivial.add(case_id(c))

    oracle_fail = [i for i, r in enumerate(results) if r.get("fail")]

    # 3. extended search when something broke but no failing input is at hand -------------------
    broke = bool(proof_problems or disagreements or harness_errors)
    extra_cases, extra_results = [], []
    if broke and not oracle_fail:
        rng2 = random.Random(seed * 7919 + 101)
        extra_cases = list(mod.cases(rng2, "thorough" if tier == "quick" else "thorough"))
        extra_results = run_python_all(mod, extra_cases, args.procs)
        for i, r in enumerate(extra_results):
            if r.get("fail"):
                cases.append(extra_cases[i])
                results.append(r)
                oracle_fail.append(len(cases) - 1)

    # 4. verdict -------------------------------------------------------------------------------------
    known = C.load_known(prop)
    key_of = getattr(mod, "finding_key", default_key)
    lines = []
    new_failures = {}
    known_hit = {}
    key_classes = {}        # finding_key of each failing input as generated (before shrinking) -> [count, listed?]
    dis_idx = {d[0] for d in disagreements}
    dis_model = {d[0]: d[1] for d in disagreements}
    for i in oracle_fail:
        def still_fails(cand, _mod=mod):
            r = _run_one_inproc(_mod, cand)
            return bool(r.get("fail"))
        small = cases[i]
        k = key_of(small, results[i])
        hit = next((f for f in known if f["key"] == k), None)
        if hit is not None and i in dis_idx:
            # ATTRIBUTION RULE (generic form of the C07 / C08 rule, session 4): a listed finding excuses a failing input only if the
            # Lean model of the UNCHANGED code - the correspondence-checked copy of the code the finding was written about - gives
            # the same answer on that input.  Here the model and the real code DISAGREE on this very input, so the listed finding
            # does not explain what the real code does now: the input is reported with a key that is never listed (not shrunk: a
            # smaller input would lose the comparison with the model).  On the unchanged tree model and code agree, so this can
            # not raise an alarm there.
            k = json.dumps(["differs-from-the-answer-of-the-modelled-code", k])
            hit = None
            key_classes.setdefault(k, [0, False])[0] += 1
            if len(new_failures) < 8:
                res_i = dict(results[i])
                res_i["fail"] = (str(res_i.get("fail")) + " [the Lean model of the unchanged code answers differently on this input: "
                                 + json.dumps(dis_model.get(i), default=str)[:300] + "; the listed finding does not explain this answer]")
                new_failures.setdefault(k, (cases[i], res_i))
            continue
        kc = key_classes.setdefault(k, [0, hit is not None])
        kc[0] += 1
        if hit is None and len(new_failures) < 8:
            small = shrink_case(mod, cases[i], still_fails)
            res_small = _run_one_inproc(mod, small) if small is not cases[i] else results[i]
            k = key_of(small, res_small)
            hit = next((f for f in known if f["key"] == k), None)
            if hit is None:
                new_failures.setdefault(k, (small, res_small))
        if hit is not None:
            known_hit[hit["key"]] = hit
    # known findings that are listed: re-check that they still reproduce (from their stored case)
    for f in known:
        if f["key"] in known_hit:
            continue
        if "case" in f:
            r = _run_one_inproc(mod, f["case"])
            if r.get("fail"):
                known_hit[f["key"]] = f
    for f in known_hit.values():
        lines.append(f"KNOWN-FINDING: property={prop} {f['what']}")

    violations = 0
    for k, (small, res) in list(new_failures.items())[:5]:
        path = C.write_replay(prop, case_id(small), {
            "property": prop, "kind": "failing-input", "case": small, "python_output": res.get("out"),
            "oracle_says": res.get("fail"), "seed": seed, "tier": tier, "finding_key": k,
            "replay_cmd": f"./check {prop} --replay <this file>",
        })
        lines.append(f"VIOLATION property={prop} replay={path}")
        violations += 1
    if broke and not new_failures:
        what = {
            "property": prop, "kind": "no-failing-input-found", "seed": seed, "tier": tier,
            "proof_obligations_broken": proof_problems[:10],
            "correspondence_disagreements": [
                {"case": cases[i], "python": results[i]["out"], "model": m} for i, m in disagreements[:10]],
            "harness_errors": [{"case": cases[i], "trace": r["harness_error"]} for i, r in harness_errors[:5]],
            "searched": {"cases_with_oracle": len(cases) + len(extra_cases)},
            "theorems_registered": audit.get("wanted", []),
        }
        path = C.write_replay(prop, "unproved", what)
        lines.append(f"VIOLATION property={prop} replay={path} no-failing-input-found")
        violations += 1

    # 5. evidence ---------------------------------------------------------------------------------
    samples = [{"case": c, "python": r["out"]} for c, r in list(zip(cases, results))[:3]]
    nt = [(c, r) for c, r in zip(cases, results) if r.get("nontrivial")]
    samples += [{"case": c, "python": r["out"]} for c, r in nt[:2]]
    coverage = {
        "obligations": obligations,
        "discharged": discharged,
        "checker_cmd": audit.get("cmd") or f"cd lean && lake build && lake env lean Y0/Audit/{prop}.lean",
        "trusted_base": C.TRUSTED_BASE + list(getattr(mod, "TRUSTED_EXTRA", [])),
        "theorems": {k: v for k, v in audit["theorems"].items()},
        "evaluations": len(cases) + len(extra_cases),
        "distinct_nontrivial": len(nontrivial),
        "rule": mod.RULE,
        "samples": samples,
        "correspondence": {
            "compared_with_model": compared, "disagreements": len(disagreements),
            "oracle_failures": len(oracle_fail), "known_findings_reproduced": len(known_hit),
            "harness_errors": len(harness_errors),
        },
        "generator_distribution": stats.dump(),
        "exhaustive": bool(getattr(mod, "EXHAUSTIVE", {}).get(tier, False)),
        "anchored_line_coverage": _linecov_summary(prop, cov_seen),
        "anchored_sources_changed_since_integration": changed,
        "generator_tier_used": gen_tier,
        "proof_problems": proof_problems[:10],
    }
    C.write_evidence(prop, tier, seed, coverage, list(mod.ASSUMPTIONS), time.time() - t0, violations)
    for ln in lines:
        print(ln)
    # triage aid: one line per distinct finding_key class of the oracle failures, with its count (most frequent first)
    ranked = sorted(key_classes.items(), key=lambda kv: (-kv[1][0], kv[0]))
    for k, (n, listed) in ranked[:12]:
        print(f"FAILURE-CLASS property={prop} count={n} listed={'yes' if listed else 'no'} key={k if len(k) <= 160 else k[:157] + '...'}")
    if len(ranked) > 12:
        print(f"FAILURE-CLASS property={prop} ... {len(ranked) - 12} more classes, {sum(v[0] for _, v in ranked[12:])} failing inputs")
    print(f"[{prop}] tier={tier} seed={seed} cases={len(cases)} compared={compared} disagreements={len(disagreements)} "
          f"oracle_failures={len(oracle_fail)} known={len(known_hit)} theorems={discharged}/{obligations} "
          f"violations={violations} wall={time.time()-t0:.1f}s")
    return 1 if violations else 0


def _linecov_summary(prop, seen):
    if os.environ.get("VERIF_LINECOV", "1") != "1":
        return {"enabled": False}
    from . import linecov

    return linecov.summarise(C.REPO, C.anchor_files(prop), seen)


def _run_one_inproc(mod, case):
    global _MOD
    _MOD = mod
    return _run_one(case)


def replay(mod, path):
    C.use_repo()
    d = json.load(open(path))
    prop = mod.PROP
    if "case" not in d:
        print(f"[{prop}] replay file names broken obligations / correspondence, no concrete input:")
        print(json.dumps({k: d[k] for k in ("proof_obligations_broken", "correspondence_disagreements") if k in d}, indent=1)[:4000])
        return 1
    case = d["case"]
    r = _run_one_inproc(mod, case)
    print(json.dumps({"case": case, "python": r.get("out"), "oracle": r.get("fail")}, indent=1, default=str))
    req = mod.request(case)
    if req is not None:
        try:
            rep = C.LeanModel().ask(req)
            print("model:", mod.canon_model(case, C.parse(rep)))
        except Exception as e:
            print("model unavailable:", e)
    if r.get("fail"):
        print(f"VIOLATION property={prop} replay={path}")
        return 1
    print(f"[{prop}] replay: property holds on this input now")
    return 0
