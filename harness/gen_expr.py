"""Type-directed generator of probability expressions in the JSON-list encoding of `enc_expr.py`
(decode with `enc_expr.dec_expr` to RAW y0 dataclass objects: no normalising constructor is applied, so products
may be nested / unsorted, sums unsimplified, fractions compound).

    gen_expr(rng, cfg)            random expression (cfg: GenCfg)
    well_scoped(e)                the decidable predicate `WellScoped` of Lean (Y0/Props/C10.lean), same definition
    zero_free_denominators(e)     no `zero` reachable inside a denominator
    event_names(e) / all_names(e) names in event position / anywhere
    present_shuffle(rng, e)       a random presentation permutation (factor order, product nesting, children/parents
                                  order) - the relation `Present` of C11
    shrink_expr(e)                smaller candidates for shrinking
    rand_ordering(rng, e, ...)    an ordering (list of encoded vars) covering / not covering the expression

Reused by the print / id / cf families: keep the encoding the one of enc_expr.py.
"""
from __future__ import annotations

import random
from dataclasses import dataclass, field

POPS = (1001, 1002)


@dataclass
class GenCfg:
    n_names: int = 4          # variable pool 0..n_names-1
    max_depth: int = 4
    well_scoped: bool = True  # only generate WellScoped expressions
    allow_zero: bool = True
    allow_q: bool = False
    p_pop: float = 0.15
    p_world: float = 0.25     # interventional leaf
    p_star: float = 0.15      # -X / +X in event position
    p_wild_leaf: float = 0.5  # (only when not well_scoped) chance that a leaf breaks a WellScoped clause
    zero_in_denominators: bool = False
    weights: dict = field(default_factory=lambda: {"leaf": 3, "prod": 3, "sum": 3, "frac": 2, "one": 0.5, "zero": 0.3})


def var(name, star="n", is_iv="0", ivs=()):
    return ["v", name, star, is_iv, [list(i) for i in ivs]]


def plain(name):
    return var(name)


# --------------------------------------------------------------------------------------------- generation

def _gen_leaf(rng: random.Random, cfg: GenCfg, bound: frozenset, force_joint=False):
    pool = list(range(cfg.n_names))
    rng.shuffle(pool)
    k = rng.choice([1, 1, 2, 2, 3]) if len(pool) >= 3 else 1
    k = min(k, len(pool))
    ch_names = pool[:k]
    rest = pool[k:]
    m = 0 if force_joint else rng.choice([0, 0, 1, 1, 2])
    m = min(m, len(rest))
    pa_names = rest[:m]
    rest = rest[m:]
    ivs = []
    if rest and rng.random() < cfg.p_world:
        w = rng.randint(1, min(2, len(rest)))
        ivs = sorted(([n, "p" if (rng.random() < 0.2 and n not in bound) or (rng.random() < 0.05) else "m"] for n in rest[:w]),
                     key=lambda p: (p[0], p[1] == "p"))
        if cfg.well_scoped:
            ivs = [[n, s] for n, s in ivs]
    pop = None
    if rng.random() < cfg.p_pop:
        pop = plain(rng.choice(POPS))

    def mk(n):
        star = "n"
        if rng.random() < cfg.p_star:
            star = "m" if (rng.random() < 0.6 or n in bound) else "p"
        return var(n, star, "0", ivs)

    children = [mk(n) for n in ch_names]
    parents = [mk(n) for n in pa_names]
    if not cfg.well_scoped and rng.random() < cfg.p_wild_leaf:
        kind = rng.choice(["dup", "multiworld", "selfdo", "plusbound", "ivobj", "dupparent"])
        if kind == "dup" and children:
            c = list(rng.choice(children))
            c[2] = rng.choice(["n", "m", "p"])
            children.insert(rng.randrange(len(children) + 1), c)
        elif kind == "multiworld":
            other = [[n, rng.choice(["m", "p"])] for n in pool if rng.random() < 0.4][:2]
            other.sort(key=lambda p: (p[0], p[1] == "p"))
            tgt = rng.choice(children + parents)
            tgt[4] = other
            if rng.random() < 0.5:  # same name in two worlds
                c = list(tgt)
                c[4] = ivs if ivs != other else []
                children.append(c)
        elif kind == "selfdo" and children:
            tgt = rng.choice(children)
            extra = [[tgt[1], rng.choice(["m", "p"])]]
            new = sorted([i for i in ivs if i[0] != tgt[1]] + extra, key=lambda p: (p[0], p[1] == "p"))
            for v in children + parents:
                v[4] = [list(i) for i in new]
        elif kind == "plusbound" and children:
            rng.choice(children)[2] = "p"
        elif kind == "ivobj" and children:
            tgt = rng.choice(children)
            if not tgt[4]:
                tgt[2] = rng.choice(["m", "p"])
                tgt[3] = "1"
        elif kind == "dupparent" and children:
            parents.append(list(rng.choice(children)))
    if pop is not None:
        return ["PP", pop, children, parents]
    return ["P", children, parents]


def _leaf_child_names(e):
    if e[0] == "P":
        return [v[1] for v in e[1]], e[2]
    if e[0] == "PP":
        return [v[1] for v in e[2]], e[3]
    return None, None


def _gen_ranges(rng: random.Random, cfg: GenCfg, body):
    pool = list(range(cfg.n_names))
    ch, pa = _leaf_child_names(body) if isinstance(body, list) else (None, None)
    if ch is not None and not pa and rng.random() < 0.85:
        ch = sorted(set(ch))
        others = [n for n in pool if n not in ch]
        mode = rng.choice(["cover", "superset", "subset", "partial", "miss", "random"])
        if mode == "cover":
            r = list(ch)
        elif mode == "superset" and others:
            r = list(ch) + rng.sample(others, rng.randint(1, min(2, len(others))))
        elif mode == "subset" and len(ch) >= 2:
            r = rng.sample(ch, rng.randint(1, len(ch) - 1))
        elif mode == "partial" and len(ch) >= 2 and others:
            r = rng.sample(ch, rng.randint(1, len(ch) - 1)) + rng.sample(others, 1)
        elif mode == "miss" and others:
            r = rng.sample(others, rng.randint(1, min(2, len(others))))
        else:
            r = [n for n in pool if rng.random() < 0.4] or [rng.choice(pool)]
    else:
        r = [n for n in pool if rng.random() < 0.35] or [rng.choice(pool)]
    return [plain(n) for n in sorted(set(r))]


def _gen(rng: random.Random, cfg: GenCfg, depth: int, bound: frozenset, in_den: bool, top: bool = False):
    w = dict(cfg.weights)
    if depth <= 1:
        w.update({"prod": 0, "sum": 0, "frac": 0})
    elif top and rng.random() < 0.85:      # composite root most of the time
        w.update({"leaf": 0, "one": 0, "zero": 0})
    if not cfg.allow_zero or (in_den and not cfg.zero_in_denominators):
        w["zero"] = 0
    if cfg.allow_q and not cfg.well_scoped:
        w["q"] = 0.3
    kinds = list(w)
    kind = rng.choices(kinds, [w[k] for k in kinds])[0]
    if kind == "leaf":
        return _gen_leaf(rng, cfg, bound)
    if kind == "one":
        return "one"
    if kind == "zero":
        return "zero"
    if kind == "q":
        pool = list(range(cfg.n_names))
        rng.shuffle(pool)
        k = rng.randint(1, max(1, len(pool) - 1))
        return ["Q", [plain(n) for n in sorted(pool[:k])], [plain(n) for n in sorted(pool[k:] or pool[:1])]]
    if kind == "prod":
        n = rng.choice([2, 2, 3, 3, 4])
        return ["prod"] + [_gen(rng, cfg, depth - 1, bound, in_den) for _ in range(n)]
    if kind == "sum":
        # generate the body first with a tentative bound set, then pick ranges w.r.t. the body
        if rng.random() < 0.5:
            body = _gen_leaf(rng, cfg, bound | frozenset(range(cfg.n_names)), force_joint=rng.random() < 0.8)
            ranges = _gen_ranges(rng, cfg, body)
        else:
            ranges = _gen_ranges(rng, cfg, None)
            body = _gen(rng, cfg, depth - 1, bound | frozenset(v[1] for v in ranges), in_den)
        return ["sum", ranges, body]
    if kind == "frac":
        num = _gen(rng, cfg, depth - 1, bound, in_den)
        den = _gen(rng, cfg, depth - 1, bound, True)
        if den == "zero":
            den = "one"
        return ["frac", num, den]
    raise AssertionError(kind)


def gen_expr(rng: random.Random, cfg: GenCfg | None = None):
    cfg = cfg or GenCfg()
    for _ in range(50):
        e = _gen(rng, cfg, max(1, cfg.max_depth - rng.choice([0, 0, 0, 1, 1, 2])), frozenset(), False, top=True)
        if not cfg.well_scoped or well_scoped(e):
            return e
    return _gen_leaf(rng, GenCfg(n_names=cfg.n_names, p_star=0, p_world=0), frozenset())


# --------------------------------------------------------------------------------------------- predicates

def _leaf_parts(e):
    return (e[1], e[2]) if e[0] == "P" else (e[2], e[3])


def subterms(e):
    yield e
    if isinstance(e, list):
        if e[0] == "prod":
            for x in e[1:]:
                yield from subterms(x)
        elif e[0] == "sum":
            yield from subterms(e[2])
        elif e[0] == "frac":
            yield from subterms(e[1])
            yield from subterms(e[2])


def depth(e):
    if not isinstance(e, list) or e[0] in ("P", "PP", "Q"):
        return 1
    if e[0] == "prod":
        return 1 + max(depth(x) for x in e[1:])
    if e[0] == "sum":
        return 1 + depth(e[2])
    return 1 + max(depth(e[1]), depth(e[2]))


def event_vars(e):
    """encoded variables in event position (children / parents of leaves, Q arguments)"""
    for t in subterms(e):
        if isinstance(t, list) and t[0] in ("P", "PP"):
            c, p = _leaf_parts(t)
            yield from c
            yield from p
        elif isinstance(t, list) and t[0] == "Q":
            yield from t[1]
            yield from t[2]


def event_names(e):
    return {int(v[1]) for v in event_vars(e)}


def all_names(e):
    out = set()
    for t in subterms(e):
        if isinstance(t, list) and t[0] == "sum":
            out |= {int(v[1]) for v in t[1]}
    for v in event_vars(e):
        out.add(int(v[1]))
        out |= {int(i[0]) for i in v[4]}
    return out


def plus_event_names(e):
    """names that occur with star '+' in event position"""
    return {int(v[1]) for v in event_vars(e) if v[2] == "p"}


def leaf_ok(t):
    """WellScoped, leaf clause: at least one child; the names of children and parents pairwise distinct;
    one intervention set for all its variables (single world); the intervened names are not among its own variables"""
    c, p = _leaf_parts(t)
    vs = list(c) + list(p)
    names = [int(v[1]) for v in vs]
    if not c or len(set(names)) != len(names):
        return False
    ivs0 = [[int(a), b] for a, b in vs[0][4]]
    if any([[int(a), b] for a, b in v[4]] != ivs0 for v in vs):
        return False
    if {a for a, _ in ivs0} & set(names):
        return False
    return True


def range_names(e):
    out = set()
    for t in subterms(e):
        if isinstance(t, list) and t[0] == "sum":
            out |= {int(v[1]) for v in t[1]}
    return out


def _ws(e, S):
    if not isinstance(e, list):
        return e in ("one", "zero")
    tag = e[0]
    if tag in ("P", "PP"):
        return leaf_ok(e) and not ({int(v[1]) for v in event_vars(e) if v[2] == "p"} & S)
    if tag == "Q":
        return False
    if tag == "prod":
        return all(_ws(x, S) for x in e[1:])
    if tag == "frac":
        return _ws(e[1], S) and _ws(e[2], S)
    if tag == "sum":
        rs = e[1]
        if not rs or any(not (v[2] == "n" and str(v[3]) == "0" and not v[4]) for v in rs):
            return False
        if len({int(v[1]) for v in rs}) != len(rs):
            return False
        return _ws(e[2], S)
    return False


def well_scoped(e):
    """same definition as `Y0.WellScoped` (lean/Y0/Lemmas/SemScope.lean):
    every leaf is `leaf_ok`; no Q-factor; Sum ranges are non-empty plain variables; a name that is a range of some Sum of
    the expression never occurs `+`-starred in event position."""
    return _ws(e, range_names(e))


def contains_zero(e):
    return any(t == "zero" for t in subterms(e))


def zero_free_denominators(e):
    return not any(isinstance(t, list) and t[0] == "frac" and contains_zero(t[2]) for t in subterms(e))


def constructors(e):
    out = {}
    for t in subterms(e):
        k = t if not isinstance(t, list) else t[0]
        out[k] = out.get(k, 0) + 1
    return out


# --------------------------------------------------------------------------------------------- orderings

def rand_ordering(rng: random.Random, e, n_names=None, covering=True):
    """encoded ordering: a shuffled list of plain variables covering all names of `e` (plus a few others);
    `covering=False` drops one event name (-> KeyError branch)"""
    names = set(all_names(e))
    if n_names:
        names |= {n for n in range(n_names) if rng.random() < 0.5}
    names = sorted(names)
    if not covering:
        ev = sorted(event_names(e))
        if ev:
            names = [n for n in names if n != rng.choice(ev)]
    rng.shuffle(names)
    return [plain(n) for n in names]


# --------------------------------------------------------------------------------------------- presentations

def _nest(rng, fs):
    """re-nest a flat factor list into random sub-products (each with >= 2 factors)"""
    fs = list(fs)
    if len(fs) <= 2 or rng.random() < 0.4:
        return fs
    i = rng.randrange(0, len(fs) - 1)
    j = rng.randrange(i + 2, len(fs) + 1)
    if j - i == len(fs):
        return fs
    inner = ["prod"] + _nest(rng, fs[i:j])
    return _nest(rng, fs[:i] + [inner] + fs[j:])


def _flatten(e):
    out = []
    for x in e[1:]:
        if isinstance(x, list) and x[0] == "prod":
            out.extend(_flatten(x))
        else:
            out.append(x)
    return out


def present_shuffle(rng: random.Random, e):
    """a random member of the `Present` class of `e`: permute the factors of every product, change the nesting of
    products, permute children and parents of every leaf"""
    if not isinstance(e, list):
        return e
    tag = e[0]
    if tag == "P":
        c, p = list(e[1]), list(e[2])
        rng.shuffle(c)
        rng.shuffle(p)
        return ["P", c, p]
    if tag == "PP":
        c, p = list(e[2]), list(e[3])
        rng.shuffle(c)
        rng.shuffle(p)
        return ["PP", e[1], c, p]
    if tag == "prod":
        fs = [present_shuffle(rng, x) for x in _flatten(e)]
        rng.shuffle(fs)
        return ["prod"] + _nest(rng, fs)
    if tag == "sum":
        return ["sum", e[1], present_shuffle(rng, e[2])]
    if tag == "frac":
        return ["frac", present_shuffle(rng, e[1]), present_shuffle(rng, e[2])]
    return e


# --------------------------------------------------------------------------------------------- shrinking

def shrink_expr(e):
    """candidates strictly smaller than `e` (still constructible: products keep >= 2 factors, leaves >= 1 child)"""
    if not isinstance(e, list):
        return
    tag = e[0]
    if tag == "prod":
        for x in e[1:]:
            yield x
        if len(e) > 3:
            for i in range(1, len(e)):
                yield e[:i] + e[i + 1:]
        for i in range(1, len(e)):
            for s in shrink_expr(e[i]):
                yield e[:i] + [s] + e[i + 1:]
    elif tag == "sum":
        yield e[2]
        if len(e[1]) > 1:
            for i in range(len(e[1])):
                yield ["sum", e[1][:i] + e[1][i + 1:], e[2]]
        for s in shrink_expr(e[2]):
            yield ["sum", e[1], s]
    elif tag == "frac":
        yield e[1]
        yield e[2]
        for s in shrink_expr(e[1]):
            yield ["frac", s, e[2]]
        for s in shrink_expr(e[2]):
            if s != "zero":
                yield ["frac", e[1], s]
    elif tag in ("P", "PP"):
        off = 1 if tag == "P" else 2
        c, p = e[off], e[off + 1]
        head = e[:off]
        if len(c) > 1:
            for i in range(len(c)):
                yield head + [c[:i] + c[i + 1:], p]
        for i in range(len(p)):
            yield head + [c, p[:i] + p[i + 1:]]
        if tag == "PP":
            yield ["P", c, p]
        if any(v[4] for v in c + p):
            yield head + [[v[:4] + [[]] for v in c], [v[:4] + [[]] for v in p]]
        if any(v[2] != "n" for v in c + p):
            yield head + [[v[:2] + ["n", "0"] + v[4:] for v in c], [v[:2] + ["n", "0"] + v[4:] for v in p]]


# --------------------------------------------------------------------------------------------- finding keys

def alpha_normalise(obj):
    """rename the variable names (ints < 1000) in order of first occurrence to 0,1,2,...; drop nothing else.
    Used for finding keys, so that one defect met with different names is one finding."""
    table: dict = {}

    def ren(n):
        n = int(n)
        if n >= 1000:
            return n
        return table.setdefault(n, len(table))

    def go(x):
        if isinstance(x, list) and len(x) == 5 and x[0] == "v":
            return ["v", ren(x[1]), x[2], str(x[3]), [[ren(a), b] for a, b in x[4]]]
        if isinstance(x, list):
            return [go(y) for y in x]
        if isinstance(x, dict):
            return {k: go(v) for k, v in sorted(x.items())}
        return x
    return go(obj)
