"""Type-directed generator of probability expressions in the JSON-list encoding of `enc_expr.py`
(decode with `enc_expr.dec_expr` to RAW y0 dataclass objects: no normalising constructor is applied, so products
may be nested / unsorted, sums unsimplified, fractions compound).

    gen_expr(rng, cfg)            random expression (cfg: GenCfg)
    well_scoped(e)                the decidable predicate `WellScoped` of Lean (Y0/Props/C10.lean), same definition
    zero_free_denominators(e)     no `zero` reachable inside a denominator
    event_names(e) / all_names(e) names in event position / anywhere
    present_shuffle(rng, e)       a random presentation permutation (factor order, product nesting, children/parents
                                  order) - the relation `Present` of C11
    shrink_expr(e)                smaller candidates for shrinking
    rand_ordering(rng, e, ...)    an ordering (list of encoded vars) covering / not covering the expression
    well_scoped_mw(e)             the WIDENED quantifier `WellScopedW` of Lean (Y0/Lemmas/SemScopeW.lean): leaves may be
                                  multi-world joints, several children may share a base variable
    mw_leaf / struct_mw_sum /     multi-world joint leaves (same base in several worlds / with several value marks) and
    struct_mw_expr                Sums over them in every relation between the ranges and the duplicated / single bases

Reused by the print / id / cf families: keep the encoding the one of enc_expr.py.
"""
from __future__ import annotations

import random
from dataclasses import dataclass, field

POPS = (1001, 1002)


@dataclass
class GenCfg:
    n_names: int = 4          # variable pool 0..n_names-1
    max_depth: int = 4
    well_scoped: bool = True  # only generate WellScoped expressions
    allow_zero: bool = True
    allow_q: bool = False
    p_pop: float = 0.15
    p_world: float = 0.25     # interventional leaf
    p_star: float = 0.15      # -X / +X in event position
    p_wild_leaf: float = 0.5  # (only when not well_scoped) chance that a leaf breaks a WellScoped clause
    zero_in_denominators: bool = False
    weights: dict = field(default_factory=lambda: {"leaf": 3, "prod": 3, "sum": 3, "frac": 2, "one": 0.5, "zero": 0.3})


def var(name, star="n", is_iv="0", ivs=()):
    return ["v", name, star, is_iv, [list(i) for i in ivs]]


def plain(name):
    return var(name)


# --------------------------------------------------------------------------------------------- generation

def _gen_leaf(rng: random.Random, cfg: GenCfg, bound: frozenset, force_joint=False):
    pool = list(range(cfg.n_names))
    rng.shuffle(pool)
    k = rng.choice([1, 1, 2, 2, 3]) if len(pool) >= 3 else 1
    k = min(k, len(pool))
    ch_names = pool[:k]
    rest = pool[k:]
    m = 0 if force_joint else rng.choice([0, 0, 1, 1, 2])
    m = min(m, len(rest))
    pa_names = rest[:m]
    rest = rest[m:]
    ivs = []
    if rest and rng.random() < cfg.p_world:
        w = rng.randint(1, min(2, len(rest)))
        ivs = sorted(([n, "p" if (rng.random() < 0.2 and n not in bound) or (rng.random() < 0.05) else "m"] for n in rest[:w]),
                     key=lambda p: (p[0], p[1] == "p"))
        if cfg.well_scoped:
            ivs = [[n, s] for n, s in ivs]
    pop = None
    if rng.random() < cfg.p_pop:
        pop = plain(rng.choice(POPS))

    def mk(n):
        star = "n"
        if rng.random() < cfg.p_star:
            star = "m" if (rng.random() < 0.6 or n in bound) else "p"
        return var(n, star, "0", ivs)

    children = [mk(n) for n in ch_names]
    parents = [mk(n) for n in pa_names]
    if not cfg.well_scoped and rng.random() < cfg.p_wild_leaf:
        kind = rng.choice(["dup", "multiworld", "selfdo", "plusbound", "ivobj", "dupparent"])
        if kind == "dup" and children:
            c = list(rng.choice(children))
            c[2] = rng.choice(["n", "m", "p"])
            children.insert(rng.randrange(len(children) + 1), c)
        elif kind == "multiworld":
            other = [[n, rng.choice(["m", "p"])] for n in pool if rng.random() < 0.4][:2]
            other.sort(key=lambda p: (p[0], p[1] == "p"))
            tgt = rng.choice(children + parents)
            tgt[4] = other
            if rng.random() < 0.5:  # same name in two worlds
                c = list(tgt)
                c[4] = ivs if ivs != other else []
                children.append(c)
        elif kind == "selfdo" and children:
            tgt = rng.choice(children)
            extra = [[tgt[1], rng.choice(["m", "p"])]]
            new = sorted([i for i in ivs if i[0] != tgt[1]] + extra, key=lambda p: (p[0], p[1] == "p"))
            for v in children + parents:
                v[4] = [list(i) for i in new]
        elif kind == "plusbound" and children:
            rng.choice(children)[2] = "p"
        elif kind == "ivobj" and children:
            tgt = rng.choice(children)
            if not tgt[4]:
                tgt[2] = rng.choice(["m", "p"])
                tgt[3] = "1"
        elif kind == "dupparent" and children:
            parents.append(list(rng.choice(children)))
    if pop is not None:
        return ["PP", pop, children, parents]
    return ["P", children, parents]


def _leaf_child_names(e):
    if e[0] == "P":
        return [v[1] for v in e[1]], e[2]
    if e[0] == "PP":
        return [v[1] for v in e[2]], e[3]
    return None, None


def _gen_ranges(rng: random.Random, cfg: GenCfg, body):
    pool = list(range(cfg.n_names))
    ch, pa = _leaf_child_names(body) if isinstance(body, list) else (None, None)
    if ch is not None and not pa and rng.random() < 0.85:
        ch = sorted(set(ch))
        others = [n for n in pool if n not in ch]
        mode = rng.choice(["cover", "superset", "subset", "partial", "miss", "random"])
        if mode == "cover":
            r = list(ch)
        elif mode == "superset" and others:
            r = list(ch) + rng.sample(others, rng.randint(1, min(2, len(others))))
        elif mode == "subset" and len(ch) >= 2:
            r = rng.sample(ch, rng.randint(1, len(ch) - 1))
        elif mode == "partial" and len(ch) >= 2 and others:
            r = rng.sample(ch, rng.randint(1, len(ch) - 1)) + rng.sample(others, 1)
        elif mode == "miss" and others:
            r = rng.sample(others, rng.randint(1, min(2, len(others))))
        else:
            r = [n for n in pool if rng.random() < 0.4] or [rng.choice(pool)]
    else:
        r = [n for n in pool if rng.random() < 0.35] or [rng.choice(pool)]
    return [plain(n) for n in sorted(set(r))]


def _gen(rng: random.Random, cfg: GenCfg, depth: int, bound: frozenset, in_den: bool, top: bool = False):
    w = dict(cfg.weights)
    if depth <= 1:
        w.update({"prod": 0, "sum": 0, "frac": 0})
    elif top and rng.random() < 0.85:      # composite root most of the time
        w.update({"leaf": 0, "one": 0, "zero": 0})
    if not cfg.allow_zero or (in_den and not cfg.zero_in_denominators):
        w["zero"] = 0
    if cfg.allow_q and not cfg.well_scoped:
        w["q"] = 0.3
    kinds = list(w)
    kind = rng.choices(kinds, [w[k] for k in kinds])[0]
    if kind == "leaf":
        return _gen_leaf(rng, cfg, bound)
    if kind == "one":
        return "one"
    if kind == "zero":
        return "zero"
    if kind == "q":
        pool = list(range(cfg.n_names))
        rng.shuffle(pool)
        k = rng.randint(1, max(1, len(pool) - 1))
        return ["Q", [plain(n) for n in sorted(pool[:k])], [plain(n) for n in sorted(pool[k:] or pool[:1])]]
    if kind == "prod":
        n = rng.choice([2, 2, 3, 3, 4])
        return ["prod"] + [_gen(rng, cfg, depth - 1, bound, in_den) for _ in range(n)]
    if kind == "sum":
        # generate the body first with a tentative bound set, then pick ranges w.r.t. the body
        if rng.random() < 0.5:
            body = _gen_leaf(rng, cfg, bound | frozenset(range(cfg.n_names)), force_joint=rng.random() < 0.8)
            ranges = _gen_ranges(rng, cfg, body)
        else:
            ranges = _gen_ranges(rng, cfg, None)
            body = _gen(rng, cfg, depth - 1, bound | frozenset(v[1] for v in ranges), in_den)
        return ["sum", ranges, body]
    if kind == "frac":
        num = _gen(rng, cfg, depth - 1, bound, in_den)
        den = _gen(rng, cfg, depth - 1, bound, True)
        if den == "zero":
            den = "one"
        return ["frac", num, den]
    raise AssertionError(kind)


def gen_expr(rng: random.Random, cfg: GenCfg | None = None):
    cfg = cfg or GenCfg()
    for _ in range(50):
        e = _gen(rng, cfg, max(1, cfg.max_depth - rng.choice([0, 0, 0, 1, 1, 2])), frozenset(), False, top=True)
        if not cfg.well_scoped or well_scoped(e):
            return e
    return _gen_leaf(rng, GenCfg(n_names=cfg.n_names, p_star=0, p_world=0), frozenset())


# --------------------------------------------------------------------------------------------- predicates

def _leaf_parts(e):
    return (e[1], e[2]) if e[0] == "P" else (e[2], e[3])


def subterms(e):
    yield e
    if isinstance(e, list):
        if e[0] == "prod":
            for x in e[1:]:
                yield from subterms(x)
        elif e[0] == "sum":
            yield from subterms(e[2])
        elif e[0] == "frac":
            yield from subterms(e[1])
            yield from subterms(e[2])


def depth(e):
    if not isinstance(e, list) or e[0] in ("P", "PP", "Q"):
        return 1
    if e[0] == "prod":
        return 1 + max(depth(x) for x in e[1:])
    if e[0] == "sum":
        return 1 + depth(e[2])
    return 1 + max(depth(e[1]), depth(e[2]))


def event_vars(e):
    """encoded variables in event position (children / parents of leaves, Q arguments)"""
    for t in subterms(e):
        if isinstance(t, list) and t[0] in ("P", "PP"):
            c, p = _leaf_parts(t)
            yield from c
            yield from p
        elif isinstance(t, list) and t[0] == "Q":
            yield from t[1]
            yield from t[2]


def event_names(e):
    return {int(v[1]) for v in event_vars(e)}


def all_names(e):
    out = set()
    for t in subterms(e):
        if isinstance(t, list) and t[0] == "sum":
            out |= {int(v[1]) for v in t[1]}
    for v in event_vars(e):
        out.add(int(v[1]))
        out |= {int(i[0]) for i in v[4]}
    return out


def plus_event_names(e):
    """names that occur with star '+' in event position"""
    return {int(v[1]) for v in event_vars(e) if v[2] == "p"}


def leaf_ok(t):
    """WellScoped, leaf clause: at least one child; the names of children and parents pairwise distinct;
    one intervention set for all its variables (single world); the intervened names are not among its own variables"""
    c, p = _leaf_parts(t)
    vs = list(c) + list(p)
    names = [int(v[1]) for v in vs]
    if not c or len(set(names)) != len(names):
        return False
    ivs0 = [[int(a), b] for a, b in vs[0][4]]
    if any([[int(a), b] for a, b in v[4]] != ivs0 for v in vs):
        return False
    if {a for a, _ in ivs0} & set(names):
        return False
    return True


def range_names(e):
    out = set()
    for t in subterms(e):
        if isinstance(t, list) and t[0] == "sum":
            out |= {int(v[1]) for v in t[1]}
    return out


def _ws(e, S):
    if not isinstance(e, list):
        return e in ("one", "zero")
    tag = e[0]
    if tag in ("P", "PP"):
        return leaf_ok(e) and not ({int(v[1]) for v in event_vars(e) if v[2] == "p"} & S)
    if tag == "Q":
        return False
    if tag == "prod":
        return all(_ws(x, S) for x in e[1:])
    if tag == "frac":
        return _ws(e[1], S) and _ws(e[2], S)
    if tag == "sum":
        rs = e[1]
        if not rs or any(not (v[2] == "n" and str(v[3]) == "0" and not v[4]) for v in rs):
            return False
        if len({int(v[1]) for v in rs}) != len(rs):
            return False
        return _ws(e[2], S)
    return False


def well_scoped(e):
    """same definition as `Y0.WellScoped` (lean/Y0/Lemmas/SemScope.lean):
    every leaf is `leaf_ok`; no Q-factor; Sum ranges are non-empty plain variables; a name that is a range of some Sum of
    the expression never occurs `+`-starred in event position."""
    return _ws(e, range_names(e))


def contains_zero(e):
    return any(t == "zero" for t in subterms(e))


def zero_free_denominators(e):
    return not any(isinstance(t, list) and t[0] == "frac" and contains_zero(t[2]) for t in subterms(e))


def constructors(e):
    out = {}
    for t in subterms(e):
        k = t if not isinstance(t, list) else t[0]
        out[k] = out.get(k, 0) + 1
    return out


# --------------------------------------------------------------------------------------------- orderings

def rand_ordering(rng: random.Random, e, n_names=None, covering=True):
    """encoded ordering: a shuffled list of plain variables covering all names of `e` (plus a few others);
    `covering=False` drops one event name (-> KeyError branch)"""
    names = set(all_names(e))
    if n_names:
        names |= {n for n in range(n_names) if rng.random() < 0.5}
    names = sorted(names)
    if not covering:
        ev = sorted(event_names(e))
        if ev:
            names = [n for n in names if n != rng.choice(ev)]
    rng.shuffle(names)
    return [plain(n) for n in names]


# --------------------------------------------------------------------------------------------- presentations

def _nest(rng, fs):
    """re-nest a flat factor list into random sub-products (each with >= 2 factors)"""
    fs = list(fs)
    if len(fs) <= 2 or rng.random() < 0.4:
        return fs
    i = rng.randrange(0, len(fs) - 1)
    j = rng.randrange(i + 2, len(fs) + 1)
    if j - i == len(fs):
        return fs
    inner = ["prod"] + _nest(rng, fs[i:j])
    return _nest(rng, fs[:i] + [inner] + fs[j:])


def _flatten(e):
    out = []
    for x in e[1:]:
        if isinstance(x, list) and x[0] == "prod":
            out.extend(_flatten(x))
        else:
            out.append(x)
    return out


def present_shuffle(rng: random.Random, e):
    """a random member of the `Present` class of `e`: permute the factors of every product, change the nesting of
    products, permute children and parents of every leaf"""
    if not isinstance(e, list):
        return e
    tag = e[0]
    if tag == "P":
        c, p = list(e[1]), list(e[2])
        rng.shuffle(c)
        rng.shuffle(p)
        return ["P", c, p]
    if tag == "PP":
        c, p = list(e[2]), list(e[3])
        rng.shuffle(c)
        rng.shuffle(p)
        return ["PP", e[1], c, p]
    if tag == "prod":
        fs = [present_shuffle(rng, x) for x in _flatten(e)]
        rng.shuffle(fs)
        return ["prod"] + _nest(rng, fs)
    if tag == "sum":
        return ["sum", e[1], present_shuffle(rng, e[2])]
    if tag == "frac":
        return ["frac", present_shuffle(rng, e[1]), present_shuffle(rng, e[2])]
    return e


# --------------------------------------------------------------------------------------------- shrinking

def shrink_expr(e):
    """candidates strictly smaller than `e` (still constructible: products keep >= 2 factors, leaves >= 1 child)"""
    if not isinstance(e, list):
        return
    tag = e[0]
    if tag == "prod":
        for x in e[1:]:
            yield x
        if len(e) > 3:
            for i in range(1, len(e)):
                yield e[:i] + e[i + 1:]
        for i in range(1, len(e)):
            for s in shrink_expr(e[i]):
                yield e[:i] + [s] + e[i + 1:]
    elif tag == "sum":
        yield e[2]
        if len(e[1]) > 1:
            for i in range(len(e[1])):
                yield ["sum", e[1][:i] + e[1][i + 1:], e[2]]
        for s in shrink_expr(e[2]):
            yield ["sum", e[1], s]
    elif tag == "frac":
        yield e[1]
        yield e[2]
        for s in shrink_expr(e[1]):
            yield ["frac", s, e[2]]
        for s in shrink_expr(e[2]):
            if s != "zero":
                yield ["frac", e[1], s]
    elif tag in ("P", "PP"):
        off = 1 if tag == "P" else 2
        c, p = e[off], e[off + 1]
        head = e[:off]
        if len(c) > 1:
            for i in range(len(c)):
                yield head + [c[:i] + c[i + 1:], p]
        for i in range(len(p)):
            yield head + [c, p[:i] + p[i + 1:]]
        if tag == "PP":
            yield ["P", c, p]
        if any(v[4] for v in c + p):
            yield head + [[v[:4] + [[]] for v in c], [v[:4] + [[]] for v in p]]
        if any(v[2] != "n" for v in c + p):
            yield head + [[v[:2] + ["n", "0"] + v[4:] for v in c], [v[:2] + ["n", "0"] + v[4:] for v in p]]


# --------------------------------------------------------------------------------------------- finding keys

def alpha_normalise(obj):
    """rename the variable names (ints < 1000) in order of first occurrence to 0,1,2,...; drop nothing else.
    Used for finding keys, so that one defect met with different names is one finding."""
    table: dict = {}

    def ren(n):
        n = int(n)
        if n >= 1000:
            return n
        return table.setdefault(n, len(table))

    def go(x):
        if isinstance(x, list) and len(x) == 5 and x[0] == "v":
            return ["v", ren(x[1]), x[2], str(x[3]), [[ren(a), b] for a, b in x[4]]]
        if isinstance(x, list):
            return [go(y) for y in x]
        if isinstance(x, dict):
            return {k: go(v) for k, v in sorted(x.items())}
        return x
    return go(obj)


# --------------------------------------------------------------------------------------------- structured generators
#
# Random type-directed expressions rarely contain two equal factors, so the branches of the canonicaliser / of
# Fraction.simplify that compare sub-expressions are almost never reached by `gen_expr`.  The generators below build
# expressions from a COMMON POOL of factors: compound fractions whose cross-multiplication yields x/x, x/1, 1/x,
# products that only appear after canonicalising a factor, factors that tie on the first child name, leaves whose
# variables share a name across worlds, repeated factors, and Sums over (population-tagged, interventional) joint leaves
# with every relation between the ranges and the children.

def cfv(name, ivs=(), star="n"):
    return ["v", name, star, "0", [list(i) for i in sorted(ivs, key=lambda p: (p[0], p[1] == "p"))]]


def mk_leaf(children, parents=(), pop=None, ivs=()):
    c = [cfv(x, ivs) if isinstance(x, int) else x for x in children]
    p = [cfv(x, ivs) if isinstance(x, int) else x for x in parents]
    return ["P", c, p] if pop is None else ["PP", plain(pop), c, p]


def mk_prod(fs):
    fs = list(fs)
    if not fs:
        return "one"
    if len(fs) == 1:
        return fs[0]
    return ["prod"] + fs


def factor_catalogue(rng: random.Random, n_names: int, flavour: str):
    """a list of pairwise different factors (canonically different as well).
    flavour 'samefirst': every factor has the same first child name (ties of the old sort key);
    'mixed': leaves over different names, conditional / joint / interventional / population-tagged, a few sums;
    'worlds': leaves whose variables share a name across worlds (NOT well-scoped: correspondence and C11 only)"""
    names = list(range(n_names))
    rng.shuffle(names)
    a, b, c = names[0], names[1], names[2]
    d = names[3] if n_names > 3 else None
    if flavour == "composite":
        return sibling_family(rng, n_names)[1]
    if flavour == "samefirst":
        # `a` must be the first child in canonical order whatever the ordering: single-child leaves only, or a is the
        # smallest name among the children (name order == ordering level after _upgrade_ordering)
        a = min(names[:3])
        b, c = [n for n in names[:3] if n != a]
        cat = [mk_leaf([a]), mk_leaf([a], [b]), mk_leaf([a], [c]), mk_leaf([a], [b, c]), mk_leaf([a, b]), mk_leaf([a, c]),
               mk_leaf([a, b], [c]), mk_leaf([a], ivs=[[b, "m"]]), mk_leaf([a], ivs=[[c, "m"]]), mk_leaf([a], ivs=[[b, "p"]]),
               mk_leaf([a], [b], ivs=[[c, "m"]]), mk_leaf([a], pop=POPS[0]), mk_leaf([a], pop=POPS[1]),
               mk_leaf([a], [b], pop=POPS[0]), mk_leaf([cfv(a, star="m")]), mk_leaf([cfv(a, star="m")], [b]),
               ["sum", [plain(b)], mk_leaf([a], [b])], ["sum", [plain(c)], mk_leaf([a], [c])],
               ["sum", [plain(b)], mk_leaf([a], [b, c])], ["sum", [plain(b), plain(c)], mk_leaf([a], [b, c])],
               ["sum", [plain(b)], mk_leaf([a], [b], pop=POPS[0])]]
    elif flavour == "worlds":
        cat = [mk_leaf([cfv(a, [[b, "m"]]), cfv(a, [[c, "m"]])]), mk_leaf([cfv(a, [[b, "m"]]), cfv(a)]),
               mk_leaf([cfv(a, [[b, "p"]]), cfv(a, [[b, "m"]])]), mk_leaf([cfv(a, [[b, "m"]])], [cfv(a, [[c, "m"]])]),
               mk_leaf([cfv(a, star="p"), cfv(a)]), mk_leaf([cfv(a, [[b, "m"]]), cfv(a, [[b, "m"], [c, "m"]])]),
               mk_leaf([cfv(a, [[b, "m"]]), cfv(c, [[b, "m"]]), cfv(a, [[c, "m"]])]), mk_leaf([a]), mk_leaf([b], [a]),
               mk_leaf([cfv(b, [[a, "m"]]), cfv(b, [[a, "p"]])], pop=POPS[0])]
    else:
        cat = [mk_leaf([a]), mk_leaf([b]), mk_leaf([c]), mk_leaf([a], [b]), mk_leaf([b], [a]), mk_leaf([b], [c]),
               mk_leaf([a, b]), mk_leaf([b, c]), mk_leaf([a, b, c]), mk_leaf([a], [b, c]), mk_leaf([a, b], [c]),
               mk_leaf([a], ivs=[[c, "m"]]), mk_leaf([b], [a], ivs=[[c, "m"]]), mk_leaf([a, b], ivs=[[c, "m"]]),
               mk_leaf([a], pop=POPS[0]), mk_leaf([a, b], pop=POPS[0]), mk_leaf([b], [a], pop=POPS[1]),
               mk_leaf([c], pop=POPS[1], ivs=[[a, "m"]]), mk_leaf([cfv(a, star="m"), b]),
               ["sum", [plain(b)], mk_leaf([a], [b])], ["sum", [plain(a)], mk_prod([mk_leaf([a], [b]), mk_leaf([c], [a])])],
               ["sum", [plain(c)], ["frac", mk_leaf([a, c]), mk_leaf([c], [b])]]]
        if d is not None:
            cat += [mk_leaf([d]), mk_leaf([d], [a]), mk_leaf([a, d], [b]), mk_leaf([c], ivs=[[d, "m"]]),
                    mk_leaf([d], [c], pop=POPS[0])]
    rng.shuffle(cat)
    return cat


SIBLING_FAMILIES = ("sum_ranges", "sum_body_prod", "frac_den", "frac_num", "pop", "star", "prod_in_frac", "sum_of_sum",
                    "iv_star")


def sibling_family(rng: random.Random, n_names: int, family=None):
    """(family, factors): composite factors that agree on everything except ONE deep position (the ranges of a sum, one
    factor of a product under a sum, the denominator of a fraction, the population, a star ...): any sort key that ignores
    that position leaves them tied, and the order of the canonical product then depends on the input order"""
    family = family or rng.choice(SIBLING_FAMILIES)
    names = list(range(n_names))
    rng.shuffle(names)
    a, b, c = names[0], names[1], names[2]
    d = names[3] if n_names > 3 else c
    L = [mk_leaf([a], [b]), mk_leaf([a], [c]), mk_leaf([b], [c]), mk_leaf([c], [b]), mk_leaf([a], [b, c]), mk_leaf([b], [a]),
         mk_leaf([a], [b], pop=POPS[0]), mk_leaf([a], ivs=[[c, "m"]])]
    if family == "sum_ranges":
        body = rng.choice([mk_leaf([a], [b, c]), mk_prod([mk_leaf([a], [b]), mk_leaf([b], [c])]),
                           ["frac", mk_leaf([a, b], [c]), mk_leaf([b], [c])]])
        rs = [[b], [c], [b, c], [d]] if d not in (b, c) else [[b], [c], [b, c]]
        fam = [["sum", [plain(n) for n in sorted(r)], body] for r in rs]
    elif family == "sum_body_prod":
        r = [plain(n) for n in sorted(rng.sample([b, c], rng.choice([1, 2])))]
        pairs = rng.sample([(i, j) for i in range(len(L)) for j in range(i)], 4)
        fam = [["sum", r, ["prod", L[i], L[j]]] for i, j in pairs]
    elif family == "frac_den":
        num = rng.choice(L)
        fam = [["frac", num, x] for x in L if x != num][:4]
    elif family == "frac_num":
        den = rng.choice(L)
        fam = [["frac", x, den] for x in L if x != den][:4]
    elif family == "pop":
        c_, p_ = rng.choice([([a], [b]), ([a], []), ([a, b], [c]), ([a, b], [])])
        fam = [mk_leaf(c_, p_), mk_leaf(c_, p_, pop=POPS[0]), mk_leaf(c_, p_, pop=POPS[1])]
        fam.append(["sum", [plain(c)], mk_leaf([a], [c], pop=POPS[0])])
        fam.append(["sum", [plain(c)], mk_leaf([a], [c], pop=POPS[1])])
    elif family == "star":
        fam = [mk_leaf([cfv(a, star=s1)], [cfv(b, star=s2)]) for s1 in ("n", "m") for s2 in ("n", "m", "p")]
    elif family == "prod_in_frac":
        den = rng.choice(L)
        pairs = rng.sample([(i, j) for i in range(len(L)) for j in range(i)], 4)
        fam = [["frac", ["prod", L[i], L[j]], den] for i, j in pairs]
        if rng.random() < 0.5:
            fam = [["frac", den, x[1]] for x in fam]
    elif family == "sum_of_sum":
        inner = [["sum", [plain(b)], mk_leaf([a], [b, c])], ["sum", [plain(c)], mk_leaf([a], [b, c])]]
        fam = [["sum", [plain(d)], ["prod", x, mk_leaf([d], [a])]] for x in inner] + inner
    else:   # iv_star: same leaf, subscripts differing only in the star / in one name
        fam = [mk_leaf([a], ivs=[[b, "m"]]), mk_leaf([a], ivs=[[b, "p"]]), mk_leaf([a], ivs=[[c, "m"]]),
               mk_leaf([a], ivs=[[b, "m"], [c, "m"]]), mk_leaf([a], ivs=[[b, "m"], [c, "p"]])]
    rng.shuffle(fam)
    return family, fam


def _leaf_all_names(t):
    c, p = _leaf_parts(t)
    out = set()
    for v in list(c) + list(p):
        out.add(int(v[1]))
        out |= {int(i[0]) for i in v[4]}
    return out


def one_like(rng: random.Random, pool, n_names):
    """an expression whose canonical form is One()"""
    k = rng.randrange(7)
    x = rng.choice(pool)
    if k == 0:
        return "one"
    if k == 1:
        n = rng.randrange(n_names)
        return ["sum", [plain(n)], mk_leaf([n])]
    if k == 2 and n_names >= 2:
        n, m = rng.sample(range(n_names), 2)
        return ["sum", [plain(n), plain(m)], mk_leaf([m, n], pop=rng.choice([None, POPS[0]]))]
    if k == 3:
        return ["frac", x, present_shuffle(rng, x)]
    if k == 4:
        y = rng.choice(pool)
        return ["frac", ["prod", x, y], ["prod", y, x]]
    if k == 5:
        return ["prod", "one", "one"]
    return ["frac", "one", "one"]


def disguise(rng: random.Random, x, pool, n_names, p=0.5):
    """an expression with the same canonical form as the factor `x` (a leaf or a sum)"""
    if rng.random() > p:
        return present_shuffle(rng, x)
    k = rng.randrange(4)
    if k == 0:
        return ["frac", present_shuffle(rng, x), one_like(rng, pool, n_names)]
    if k == 1:
        fs = [present_shuffle(rng, x), one_like(rng, pool, n_names)]
        rng.shuffle(fs)
        return ["prod"] + fs
    if k == 2 and isinstance(x, list) and x[0] in ("P", "PP") and not _leaf_parts(x)[1] and leaf_ok(x):
        # marginalise a fresh variable out of a bigger joint: Sum[Z] P(C, Z) -> P(C)   (subset branch of Sum.simplify)
        fresh = [n for n in range(n_names) if n not in _leaf_all_names(x)]
        if fresh:
            z = rng.choice(fresh)
            ivs = _leaf_parts(x)[0][0][4]
            ch = list(_leaf_parts(x)[0]) + [cfv(z, ivs)]
            rng.shuffle(ch)
            big = ["P", ch, []] if x[0] == "P" else ["PP", x[1], ch, []]
            return ["sum", [plain(z)], big]
    return present_shuffle(rng, x)


def _split(rng, xs):
    a, b = [], []
    for x in xs:
        (a if rng.random() < 0.5 else b).append(x)
    return a, b


def present_ratio(rng: random.Random, num, den, depth, pool, n_names, p_disguise=0.3):
    """an expression denoting prod(num)/prod(den) whose canonicalisation cross-multiplies (through `/` on fractions)
    to the factor multisets (num, den) exactly - no cancellation happens in canonicalize except x/x and x/1"""
    num, den = list(num), list(den)
    rng.shuffle(num)
    rng.shuffle(den)

    def side(fs):
        fs = [disguise(rng, f, pool, n_names, p_disguise) for f in fs]
        return mk_prod(_nest(rng, fs))

    if depth <= 0 or len(num) + len(den) <= 1 or rng.random() < 0.2:
        if not den and rng.random() < 0.5:
            return side(num)
        return ["frac", side(num), side(den)]
    n1, n2 = _split(rng, num)
    d1, d2 = _split(rng, den)
    top = present_ratio(rng, n1, d1, depth - 1, pool, n_names, p_disguise)
    bot = present_ratio(rng, d2, n2, depth - 1, pool, n_names, p_disguise)
    if bot == "zero":
        bot = "one"
    return ["frac", top, bot]


RATIO_TARGETS = ("xx", "xx", "xx", "x1", "1x", "shared", "repeat", "general")


def _ratio_parts(rng: random.Random, n_names=4, flavour=None, target=None):
    flavour = flavour or rng.choice(["mixed", "mixed", "samefirst", "worlds", "composite"])
    target = target or rng.choice(RATIO_TARGETS)
    pool = factor_catalogue(rng, n_names, flavour)[: rng.choice([2, 3, 3, 4])]
    pick = lambda k: [rng.choice(pool) for _ in range(k)]  # noqa: E731
    if target == "xx":
        num = pick(rng.choice([1, 2, 2, 3, 4]))
        den = list(num)
    elif target == "x1":
        num, den = pick(rng.choice([1, 2, 3])), []
    elif target == "1x":
        num, den = [], pick(rng.choice([1, 2, 3]))
    elif target == "shared":
        sh = pick(rng.choice([1, 2]))
        num, den = sh + pick(rng.choice([0, 1, 2])), sh + pick(rng.choice([0, 1, 2]))
    elif target == "repeat":
        x = rng.choice(pool)
        num = [x] * rng.choice([1, 2, 3]) + pick(rng.choice([0, 1]))
        den = [x] * rng.choice([0, 1, 2]) + pick(rng.choice([0, 1, 2]))
    else:
        num, den = pick(rng.choice([1, 2, 3])), pick(rng.choice([1, 2, 3]))
    return pool, num, den, f"ratio:{target}:{flavour}"


def struct_ratio(rng: random.Random, n_names=4, flavour=None, target=None):
    """(expression, label): a compound fraction over a common pool of factors.
    target xx: numerator and denominator multisets equal (collapses to One, directly or only after the division);
    x1 / 1x: the denominator / numerator multiset is empty; shared: common factors that canonicalize must NOT cancel;
    repeat: a factor occurs several times; general: independent multisets"""
    pool, num, den, label = _ratio_parts(rng, n_names, flavour, target)
    e = present_ratio(rng, num, den, rng.choice([1, 1, 2, 2, 3]), pool, n_names)
    return e, label


def struct_ratio_pair(rng: random.Random, n_names=4):
    """(a, b, label): two independent presentations of the same ratio of factor multisets (semantically equal; usually
    canonically equal as well)"""
    pool, num, den, label = _ratio_parts(rng, n_names)
    a = present_ratio(rng, num, den, rng.choice([0, 1, 2]), pool, n_names)
    b = present_ratio(rng, num, den, rng.choice([0, 1, 2]), pool, n_names)
    return a, b, label


def struct_product(rng: random.Random, n_names=4, flavour=None, family=None):
    """(expression, label): products whose factors tie on the first child name, contain One-like factors, and factors that
    become products only after canonicalisation ((x*y)/1, Sum over a one-like ...)"""
    flavour = flavour or rng.choice(["samefirst", "samefirst", "mixed", "worlds", "composite", "composite"])
    if flavour == "composite" or family is not None:
        fam, pool = sibling_family(rng, n_names, family)
        flavour = "composite-" + fam
    else:
        pool = factor_catalogue(rng, n_names, flavour)[: rng.choice([3, 4, 5, 6])]
    fs = []
    for _ in range(rng.choice([2, 3, 3, 4, 5])):
        k = rng.random()
        if k < 0.55:
            fs.append(disguise(rng, rng.choice(pool), pool, n_names, 0.3))
        elif k < 0.8:      # a product hidden in a fraction over a one-like denominator
            inner = [disguise(rng, rng.choice(pool), pool, n_names, 0.2) for _ in range(rng.choice([2, 2, 3]))]
            fs.append(["frac", ["prod"] + inner, one_like(rng, pool, n_names)])
        elif k < 0.9:
            fs.append(one_like(rng, pool, n_names))
        else:
            fs.append(["frac", rng.choice(pool), rng.choice(pool)])
    if len(fs) < 2:
        fs.append(rng.choice(pool))
    e = ["prod"] + _nest(rng, fs)
    w = rng.random()
    if w < 0.15:
        e = ["sum", [plain(rng.randrange(n_names))], e]
    elif w < 0.3:
        e = ["frac", e, rng.choice(pool)]
    return e, f"product:{flavour}"


SUM_MODES = ("equal", "superset", "subset", "partial", "miss")


def struct_sum_leaf(rng: random.Random, n_names=4, mode=None, pop=None, wrap=None):
    """(expression, label): Sum over a parent-less joint leaf (plain / interventional / population-tagged / starred) with
    the given relation between ranges and children; optionally the leaf only appears after canonicalising the summand,
    optionally wrapped in a product / fraction / outer sum"""
    mode = mode or rng.choice(SUM_MODES)
    names = list(range(n_names))
    rng.shuffle(names)
    k = rng.choice([1, 2, 2, 3]) if n_names >= 4 else rng.choice([1, 2])
    if mode in ("subset", "partial"):
        k = max(k, 2)
    k = min(k, n_names - 1)
    ch, others = names[:k], names[k:]
    ivs = []
    if len(others) >= 2 and rng.random() < 0.3:
        ivs = [[others.pop(), rng.choice(["m", "m", "p"])]]
    if pop is None:
        pop = rng.choice([None, POPS[0], POPS[1]])
    elif pop is False:
        pop = None
    children = [cfv(n, ivs, "m" if rng.random() < 0.1 else "n") for n in ch]
    rng.shuffle(children)
    leaf = mk_leaf(children, pop=pop)
    if mode == "equal":
        r = list(ch)
    elif mode == "superset":
        r = list(ch) + rng.sample(others, rng.randint(1, min(2, len(others))))
    elif mode == "subset":
        r = rng.sample(ch, rng.randint(1, len(ch) - 1))
    elif mode == "partial":
        r = rng.sample(ch, rng.randint(1, len(ch) - 1)) + rng.sample(others, rng.randint(1, min(2, len(others))))
    else:
        r = rng.sample(others, rng.randint(1, min(2, len(others))))
    body = leaf
    h = rng.random()
    if h < 0.15:
        body = ["frac", leaf, "one"]
    elif h < 0.3:
        body = ["prod", "one", leaf]
    elif h < 0.4 and others:      # the leaf itself is the result of an inner marginalisation
        z = [n for n in others if n not in r]
        if z:
            big = list(children) + [cfv(z[0], ivs)]
            rng.shuffle(big)
            body = ["sum", [plain(z[0])], mk_leaf(big, pop=pop)]
    e = ["sum", [plain(n) for n in sorted(set(r))], body]
    wrap = wrap or rng.choice(["none", "none", "prod", "num", "den", "sum", "both"])
    other = mk_leaf([names[-1]], pop=rng.choice([None, pop]))
    if wrap == "prod":
        e = ["prod", other, e]
    elif wrap == "num":
        e = ["frac", e, other]
    elif wrap == "den" and mode != "equal":
        e = ["frac", other, e]
    elif wrap == "sum":
        e = ["sum", [plain(rng.choice(names))], ["prod", e, other]]
    elif wrap == "both":
        e2, _ = struct_sum_leaf(rng, n_names, wrap="none")
        e = ["frac", e, e2]
    return e, f"sumleaf:{mode}:{'PP' if pop else 'P'}"


def struct_expr(rng: random.Random, n_names=4):
    """one structured expression with its label"""
    k = rng.random()
    if k < 0.5:
        return struct_ratio(rng, n_names)
    if k < 0.75:
        return struct_product(rng, n_names)
    return struct_sum_leaf(rng, n_names)


# --------------------------------------------------------------------------------------------- feature detection

def features(enc, ordering=None, limit=40):
    """Which comparison branches of the REAL canonicaliser does `enc` reach?  Walks the raw expression, canonicalises
    the sub-terms with the real code and reports a set of feature names (used as generator-distribution tags):

      frac:den_one / frac:equal_direct     the first checks of the Fraction branch fire
      frac:cross_xx / cross_x1 / cross_1x  numerator and denominator differ as objects, at least one is a Fraction, and
                                           the division cross-multiplies into x/x, x/One, One/x
      frac:cross_other / frac:plain        compound / simple fraction that stays
      frac:shared_factor                   canonical numerator and denominator have a factor in common (must not cancel)
      prod:nested_raw                      a product directly inside a product
      prod:nested_after_canon              a non-product factor whose canonical form is a product
      prod:first_child_tie                 two canonical factors with the same class rank and first child name
      prod:repeated_factor                 two equal canonical factors
      prod:one_factor / prod:zero_factor   a factor canonicalising to One / Zero
      leaf:shared_name                     a leaf with two variables of the same name (several worlds / stars)
      sum:<mode>:<P|PP>[:iv]               Sum whose canonical summand is a parent-less leaf: relation ranges/children
      sum:of_one                           the summand canonicalises to One
    """
    from y0.dsl import Fraction, One, PopulationProbability, Probability, Product, Sum, Zero
    from y0.mutate.canonicalize_expr import Canonicalizer

    from . import enc_expr as X
    from y0.dsl import ensure_ordering

    out = set()
    try:
        e = X.dec_expr(enc)
        o = ensure_ordering(e, ordering=None if ordering is None else [X.dec_var(v) for v in ordering])
        cz = Canonicalizer(o)
    except Exception:
        return out
    budget = [limit]

    def canon(x):
        try:
            return cz.canonicalize(x)
        except Exception:
            return None

    def first_key(c):
        if isinstance(c, Probability):
            return ("P", c.children[0].name)
        if isinstance(c, Sum):
            k = first_key(c.expression)
            return None if k is None else ("S",) + k
        return None

    def factors(c):
        return list(c.expressions) if isinstance(c, Product) else [c]

    def walk(x):
        if budget[0] <= 0:
            return
        budget[0] -= 1
        if isinstance(x, Probability):
            names = [v.name for v in x.children + x.parents]
            if len(set(names)) < len(names):
                out.add("leaf:shared_name")
        elif isinstance(x, Product):
            cs = []
            for f in x.expressions:
                walk(f)
                if isinstance(f, Product):
                    out.add("prod:nested_raw")
                    continue
                c = canon(f)
                if c is None:
                    continue
                if isinstance(c, Product):
                    out.add("prod:nested_after_canon")
                if isinstance(c, One):
                    out.add("prod:one_factor")
                if isinstance(c, Zero):
                    out.add("prod:zero_factor")
            c = canon(x)
            if isinstance(c, Product):
                cs = list(c.expressions)
                keys = [first_key(f) for f in cs]
                keys = [k for k in keys if k is not None]
                if len(set(keys)) < len(keys):
                    out.add("prod:first_child_tie")
                if any(cs[i] == cs[j] for i in range(len(cs)) for j in range(i)):
                    out.add("prod:repeated_factor")
        elif isinstance(x, Sum):
            walk(x.expression)
            c = canon(x.expression)
            if isinstance(c, One):
                out.add("sum:of_one")
            if isinstance(c, Probability) and not c.parents:
                ch = {v.get_base() for v in c.children}
                r = set(x.ranges)
                mode = ("equal" if r == ch else "superset" if r > ch else "subset" if r < ch else
                        "partial" if r & ch else "miss")
                tag = f"sum:{mode}:{'PP' if isinstance(c, PopulationProbability) else 'P'}"
                out.add(tag)
                if any(getattr(v, "interventions", None) for v in c.children):
                    out.add(tag + ":iv")
        elif isinstance(x, Fraction):
            walk(x.numerator)
            walk(x.denominator)
            n, d = canon(x.numerator), canon(x.denominator)
            if n is None or d is None:
                return
            if isinstance(d, One):
                out.add("frac:den_one")
            elif n == d:
                out.add("frac:equal_direct")
            else:
                try:
                    rv = n / d
                except Exception:
                    return
                compound = isinstance(n, Fraction) or isinstance(d, Fraction)
                if isinstance(rv, Fraction) and compound and isinstance(rv.denominator, One):
                    out.add("frac:cross_x1")
                elif isinstance(rv, Fraction) and compound and rv.numerator == rv.denominator:
                    out.add("frac:cross_xx")
                elif isinstance(rv, Fraction) and compound and isinstance(rv.numerator, One):
                    out.add("frac:cross_1x")
                elif compound:
                    out.add("frac:cross_other")
                else:
                    out.add("frac:plain")
                if isinstance(rv, Fraction):
                    fn, fd = factors(rv.numerator), factors(rv.denominator)
                    if any(a == b for a in fn for b in fd) and rv.numerator != rv.denominator:
                        out.add("frac:shared_factor")

    walk(e)
    return out


# --------------------------------------------------------------------------------------------- structured: operators

EXPR_CLASSES = ("P", "PP", "prod", "sum", "frac", "one", "zero", "Q")


def class_instance(rng: random.Random, cls: str, pool, n_names: int):
    """a raw expression whose Python class is `cls`, built from the common factor pool"""
    leaves = [x for x in pool if isinstance(x, list) and x[0] == "P"] or [mk_leaf([0])]
    pleaves = [x for x in pool if isinstance(x, list) and x[0] == "PP"] or [mk_leaf([0], pop=POPS[0])]
    if cls == "P":
        return rng.choice(leaves)
    if cls == "PP":
        return rng.choice(pleaves)
    if cls == "one":
        return "one"
    if cls == "zero":
        return "zero"
    if cls == "Q":
        ns = list(range(n_names))
        rng.shuffle(ns)
        k = rng.randint(1, n_names - 1)
        return ["Q", [plain(n) for n in sorted(ns[:k])], [plain(n) for n in sorted(ns[k:])]]
    if cls == "prod":
        fs = [rng.choice(pool) for _ in range(rng.choice([2, 2, 3]))]
        if rng.random() < 0.25:
            fs.append(rng.choice(["one", ["frac", rng.choice(pool), rng.choice(pool)]]))
        rng.shuffle(fs)
        return ["prod"] + _nest(rng, fs)
    if cls == "sum":
        body = rng.choice([rng.choice(pool), mk_prod([rng.choice(pool), rng.choice(pool)]),
                           ["frac", rng.choice(pool), rng.choice(pool)]])
        r = sorted(rng.sample(range(n_names), rng.choice([1, 1, 2])))
        return ["sum", [plain(n) for n in r], body]
    if cls == "frac":
        k = rng.random()
        side = lambda: mk_prod([rng.choice(pool) for _ in range(rng.choice([1, 1, 2]))])  # noqa: E731
        if k < 0.15:
            return ["frac", "one", side()]
        if k < 0.25:
            return ["frac", side(), "one"]
        if k < 0.35:
            return ["frac", side(), ["frac", side(), side()]]
        return ["frac", side(), side()]
    raise ValueError(cls)


def struct_simplify_fraction(rng: random.Random, n_names=4):
    """(raw Fraction, label) for Fraction.simplify(): numerator and denominator factor lists with designed multiplicities
    of common factors (more often in the numerator, more often in the denominator, equally often, disjoint), single
    factors vs products on either side, One numerators over fractions"""
    flavour = rng.choice(["mixed", "mixed", "samefirst"])
    pool = factor_catalogue(rng, n_names, flavour)[: rng.choice([2, 3, 4])]
    k = rng.random()
    if k < 0.1:
        inner, _ = struct_simplify_fraction(rng, n_names)
        return ["frac", "one", inner], "simplify:one_over_frac"
    if k < 0.15:
        return ["frac", "zero", mk_prod([rng.choice(pool)])], "simplify:zero_num"
    pats = [(2, 1), (1, 2), (1, 1), (2, 2), (3, 1), (1, 3), (3, 2), (1, 0), (0, 1), (2, 0), (0, 2), (0, 0)]
    num, den = [], []
    for x in pool:
        a, b = rng.choice(pats)
        num += [x] * a
        den += [x] * b
    if not num and not den:
        num, den = [pool[0]], [pool[0]]
    rng.shuffle(num)
    rng.shuffle(den)
    d = mk_prod(den)
    return ["frac", mk_prod(num), d], "simplify:multiset"


def simplify_profile(enc):
    """multiplicity patterns of common factors in a raw fraction num/den (factor lists of top-level products):
    subset of {num>den>0, den>num>0, eq1, eq>1, num_only, den_only, single_num, single_den}"""
    out = set()
    if not (isinstance(enc, list) and enc[0] == "frac"):
        return out
    fl = lambda x: list(x[1:]) if isinstance(x, list) and x[0] == "prod" else [x]  # noqa: E731
    n, d = fl(enc[1]), fl(enc[2])
    if len(n) == 1:
        out.add("single_num")
    if len(d) == 1:
        out.add("single_den")
    import json as _j
    key = lambda x: _j.dumps(x, sort_keys=True)  # noqa: E731
    cn, cd = {}, {}
    for x in n:
        cn[key(x)] = cn.get(key(x), 0) + 1
    for x in d:
        cd[key(x)] = cd.get(key(x), 0) + 1
    for k in set(cn) | set(cd):
        a, b = cn.get(k, 0), cd.get(k, 0)
        if a > b > 0:
            out.add("num>den>0")
        elif b > a > 0:
            out.add("den>num>0")
        elif a == b == 1:
            out.add("eq1")
        elif a == b and a > 1:
            out.add("eq>1")
        elif b == 0:
            out.add("num_only")
        else:
            out.add("den_only")
    return out


def struct_ranges(rng: random.Random, e, n_names):
    """range arguments for marginalize / conditional / normalize_marginalize chosen relative to the expression: free
    event names, names bound by a Sum of the expression, intervention subscripts, fresh names; plain / starred /
    counterfactual variables"""
    ev = sorted(event_names(e))
    bound = sorted(range_names(e))
    subs = sorted({int(i[0]) for v in event_vars(e) for i in v[4]})
    fresh = [n for n in range(n_names) if n not in all_names(e)]
    mode = rng.choice(["free", "free", "all_free", "none", "bound", "subs", "fresh", "mixed"])
    if mode == "free" and ev:
        r = rng.sample(ev, rng.randint(1, len(ev)))
    elif mode == "all_free":
        r = list(ev)
    elif mode == "none":
        r = []
    elif mode == "bound" and bound:
        r = rng.sample(bound, rng.randint(1, len(bound))) + [n for n in ev if rng.random() < 0.3]
    elif mode == "subs" and subs:
        r = rng.sample(subs, 1) + [n for n in ev if rng.random() < 0.3]
    elif mode == "fresh" and fresh:
        r = rng.sample(fresh, 1) + [n for n in ev if rng.random() < 0.3]
    else:
        r = [n for n in range(n_names) if rng.random() < 0.4]
    out = []
    for n in sorted(set(r)):
        k = rng.random()
        if k < 0.8:
            out.append(plain(n))
        elif k < 0.9:
            out.append(["v", n, rng.choice(["m", "p"]), "0", []])
        else:
            others = [m for m in range(n_names) if m != n]
            out.append(cfv(n, [[rng.choice(others), "m"]]) if others else plain(n))
    return out, mode


# --------------------------------------------------------------------------------------------- multi-world joints
#
# The generators above keep every WellScoped leaf inside ONE world with pairwise distinct names, so `Sum.simplify` never
# met two children with the same base variable (its own FIXME).  The functions below are NEW streams (the distribution of
# the existing generators is unchanged): leaves that are multi-world joints - ordinary y0 objects, the inputs and outputs
# of ID* / ctfTR - whose children may share a base variable in different worlds or with different value marks.

def leaf_ok_mw(t, S):
    """the leaf clause of `WellScopedW` relative to the set S of names bound by Sums of the whole expression:
    at least one child; a subscript `-X` (unstarred) never names a variable of the leaf that is bound by a Sum (the Sum
    would bind the subscript together with the event value); no `+X` event value with X bound by a Sum.
    Nothing is required of the worlds or of the names: children may share a base variable, may even repeat."""
    c, p = _leaf_parts(t)
    vs = list(c) + list(p)
    if not c:
        return False
    names = {int(v[1]) for v in vs}
    for w in vs:
        for a, b in w[4]:
            if int(a) in names and b != "p" and int(a) in S:
                return False
    return not any(v[2] == "p" and int(v[1]) in S for v in vs)


def _wsw(e, S):
    if not isinstance(e, list):
        return e in ("one", "zero")
    tag = e[0]
    if tag in ("P", "PP"):
        return leaf_ok_mw(e, S)
    if tag == "Q":
        return False
    if tag == "prod":
        return all(_wsw(x, S) for x in e[1:])
    if tag == "frac":
        return _wsw(e[1], S) and _wsw(e[2], S)
    if tag == "sum":
        rs = e[1]
        if not rs or any(not (v[2] == "n" and str(v[3]) == "0" and not v[4]) for v in rs):
            return False
        if len({int(v[1]) for v in rs}) != len(rs):
            return False
        return _wsw(e[2], S)
    return False


def well_scoped_mw(e):
    """same definition as `Y0.WellScopedW` (lean/Y0/Lemmas/SemScopeW.lean); `well_scoped(e)` implies it"""
    return _wsw(e, range_names(e))


def has_shared_base(e):
    """some parent-less or conditional leaf has two children with the same base variable"""
    for t in subterms(e):
        if isinstance(t, list) and t[0] in ("P", "PP"):
            names = [int(v[1]) for v in _leaf_parts(t)[0]]
            if len(set(names)) < len(names):
                return True
    return False


def is_multiworld(e):
    """some leaf mentions two different intervention sets"""
    for t in subterms(e):
        if isinstance(t, list) and t[0] in ("P", "PP"):
            c, p = _leaf_parts(t)
            if len({tuple(map(tuple, v[4])) for v in list(c) + list(p)}) > 1:
                return True
    return False


def mw_leaf(rng: random.Random, n_names=4, pop=None, n_dup=None, n_single=None, marks=("n", "n", "m"), dup_marks=None):
    """(leaf, info): a parent-less joint leaf over several worlds.  `dup` base: 2-3 children with the SAME base variable
    and pairwise different (world, mark); `single` bases: children whose base occurs once, each in a random world.
    Subscript names are taken outside the event names of the leaf (so the leaf is in the widened quantifier whatever is
    summed), except for an occasional `+`-subscript on an own name (allowed) and a rare `-`-subscript on an own name
    (allowed only when that name is not bound by a Sum)."""
    names = list(range(n_names))
    rng.shuffle(names)
    n_dup = rng.choice([2, 2, 2, 3]) if n_dup is None else n_dup
    n_single = rng.choice([0, 1, 1, 2]) if n_single is None else n_single
    n_single = min(n_single, max(0, n_names - 2))
    a = names[0]
    singles = names[1:1 + n_single]
    sub = names[1 + n_single:] or [names[-1]]      # subscript names (if nothing is left: the last single, see below)
    worlds = [[]]
    for x in sub[:2]:
        worlds += [[[x, "m"]], [[x, "p"]]]
    if len(sub) >= 2:
        worlds.append([[sub[0], "m"], [sub[1], "m"]])
    worlds = [w for w in worlds if not ({i[0] for i in w} & ({a} | set(singles)))] or [[]]
    combos = [(tuple(map(tuple, w)), m) for w in worlds for m in sorted(set(dup_marks or marks))]
    rng.shuffle(combos)
    dups = [cfv(a, [list(i) for i in w], m) for w, m in combos[:max(n_dup, 1)]]
    others = [cfv(x, rng.choice(worlds), rng.choice(marks)) for x in singles]
    k = rng.random()
    if k < 0.12 and others:        # a `+`-subscript on an own name
        tgt = rng.choice(dups)
        tgt[4] = sorted(tgt[4] + [[singles[0], "p"]], key=lambda q: (q[0], q[1] == "p"))
    elif k < 0.18 and others:      # a `-`-subscript on an own name: inside the class only when that name is not summed
        tgt = rng.choice(dups)
        tgt[4] = sorted(tgt[4] + [[singles[0], "m"]], key=lambda q: (q[0], q[1] == "p"))
    children = dups + others
    rng.shuffle(children)
    seen, uniq = set(), []
    for v in children:
        key = (v[1], v[2], tuple(map(tuple, v[4])))
        if key not in seen:
            seen.add(key)
            uniq.append(v)
    leaf = mk_leaf(uniq, pop=pop)
    return leaf, {"dup": a, "singles": singles, "fresh": [x for x in sub if x != a and x not in singles]}


MW_MODES = ("dup", "single", "both", "all", "superset", "partial", "miss")


def struct_mw_sum(rng: random.Random, n_names=4, mode=None, pop=None, wrap=None):
    """(expression, label): Sum over a multi-world joint leaf.  Relation between the ranges and the children:
    dup = exactly the duplicated base; single = one base that occurs once; both; all = every base; superset = every base
    and a fresh name; partial = a single base and a fresh name; miss = fresh names only.  On the pinned code EVERY mode
    rebuilt the leaf from the dict {base: child} and so dropped all but one child per base (miss included)."""
    mode = mode or rng.choice(MW_MODES)
    if pop is False:
        pop = None
    for _ in range(30):
        need_single = mode in ("single", "both", "partial")
        leaf, info = mw_leaf(rng, n_names, pop=pop, n_single=rng.choice([1, 1, 2]) if need_single else None,
                             dup_marks=("n", "m", "p") if mode in ("single", "partial", "miss") else None)
        a, singles, fresh = info["dup"], info["singles"], info["fresh"]
        if need_single and not singles:
            continue
        if mode in ("superset", "partial", "miss") and not fresh:
            fresh = [n_names]          # a name outside the pool
        if mode == "dup":
            r = [a]
        elif mode == "single":
            r = [rng.choice(singles)]
        elif mode == "both":
            r = [a, rng.choice(singles)]
        elif mode == "all":
            r = [a] + list(singles)
        elif mode == "superset":
            r = [a] + list(singles) + [fresh[0]]
        elif mode == "partial":
            r = [rng.choice(singles), fresh[0]]
        else:
            r = [fresh[0]]
        body = leaf
        h = rng.random()
        if h < 0.12:
            body = ["frac", leaf, "one"]
        elif h < 0.24:
            body = ["prod", "one", leaf]
        elif h < 0.34:             # the leaf only appears after an inner marginalisation of a name outside the pool
            z = n_names + 1
            c, _p = _leaf_parts(leaf)
            big = list(c) + [cfv(z)]
            rng.shuffle(big)
            body = ["sum", [plain(z)], mk_leaf(big, pop=pop)]
        e = ["sum", [plain(n) for n in sorted(set(r))], body]
        w = wrap or rng.choice(["none", "none", "prod", "num", "den", "sum", "pair"])
        other = mk_leaf([rng.randrange(n_names)], pop=rng.choice([None, pop]))
        if w == "prod":
            e = ["prod", other, e]
        elif w == "num":
            e = ["frac", e, other]
        elif w == "den":
            e = ["frac", other, e]
        elif w == "sum":
            e = ["sum", [plain(n_names + 2)], ["prod", e, mk_leaf([n_names + 2], [rng.randrange(n_names)])]]
        elif w == "pair":
            e2, _ = struct_mw_sum(rng, n_names, wrap="none", pop=pop)
            e = ["prod", e, e2]
        if well_scoped_mw(e):
            return e, f"mwsum:{mode}:{'PP' if pop else 'P'}"
    return e, f"mwsum:{mode}:out"


def struct_mw_expr(rng: random.Random, n_names=4):
    """one structured expression around multi-world joints: a Sum over one (70%), a bare leaf / product / fraction of
    such leaves (canonicalisation must only sort the children), or a single-base multi-world leaf under a Sum (every
    child in its own world, all bases distinct: the marginalisation must still happen)"""
    k = rng.random()
    if k < 0.7:
        return struct_mw_sum(rng, n_names, pop=rng.choice([None, None, POPS[0]]))
    if k < 0.85:
        l1, _ = mw_leaf(rng, n_names)
        l2, _ = mw_leaf(rng, n_names)
        e = rng.choice([l1, ["prod", l1, l2], ["frac", l1, l2], ["prod", l2, ["frac", l1, present_shuffle(rng, l1)]]])
        return e, "mwleaf"
    # distinct bases, different worlds
    names = list(range(n_names))
    rng.shuffle(names)
    k2 = rng.choice([2, 2, 3]) if n_names >= 4 else 2
    ch, rest = names[:k2], names[k2:] or [n_names]
    worlds = [[], [[rest[0], "m"]], [[rest[0], "p"]]] + ([[[rest[-1], "m"]]] if len(rest) > 1 else [])
    children = [cfv(x, rng.choice(worlds), rng.choice(["n", "n", "m"])) for x in ch]
    r = rng.sample(ch, rng.randint(1, len(ch)))
    if rng.random() < 0.3:
        r.append(n_names + 1)
    e = ["sum", [plain(n) for n in sorted(set(r))], mk_leaf(children, pop=rng.choice([None, None, POPS[0]]))]
    if rng.random() < 0.4:
        e = ["frac", e, mk_leaf([ch[0]])] if rng.random() < 0.5 else ["prod", e, mk_leaf([names[-1]])]
    return e, "mwdistinct"


# --------------------------------------------------------------------------------------------- set-order sensitive shapes
#
# Expressions whose canonical form can only be right if NO step depends on the iteration order of a Python set:
# sibling factors that differ only inside a multi-element set-valued field (Sum.ranges, interventions), same-named
# counterfactual children with several subscripts each, 3-4 interventions / ranges.  Used by the fresh-interpreter
# hash-seed batches of C11 (and in-process for idempotence / presentation invariance).

SETORDER_FAMILIES = ("sum_ranges", "iv_sets", "twin_children", "many_ivs", "many_ranges", "mw_sum")


def struct_setorder(rng: random.Random, n_names=5, family=None):
    """(expression, label): a product (sometimes a ratio) of >= 3 sibling factors from one set-order sensitive family"""
    family = family or rng.choice(SETORDER_FAMILIES)
    n_names = max(n_names, 5)
    names = list(range(n_names))
    rng.shuffle(names)
    a, b, c, d, x = names[:5]
    pop = rng.choice([None, None, POPS[0]])

    def subsets(pool, lo, hi):
        out = []
        for k in range(lo, hi + 1):
            for _ in range(6):
                r = tuple(sorted(rng.sample(pool, min(k, len(pool)))))
                if r not in out:
                    out.append(r)
        rng.shuffle(out)
        return out

    if family == "sum_ranges":      # Sum[B,C](f) * Sum[B,D](f) * Sum[C,D](f): same summand, different multi-variable ranges
        f = rng.choice([mk_leaf([a], [b, c, d], pop=pop), mk_prod([mk_leaf([a], [b, c]), mk_leaf([b], [d])]),
                        ["frac", mk_leaf([a, b], [c, d]), mk_leaf([b], [c])], mk_leaf([a, b, c, d], [x], pop=pop)])
        fs = [["sum", [plain(n) for n in r], f] for r in subsets([b, c, d, x], 2, 3)[:rng.choice([3, 3, 4])]]
    elif family == "iv_sets":       # P[X,Z](Y) * P[X,W](Y) * P[W,Z](Y): same first child, different >= 2-element subscript sets
        stars = lambda r: [[n, rng.choice(["m", "m", "p"])] for n in r]  # noqa: E731
        fs = [mk_leaf([a], rng.choice([[], [b]]) if b not in r else [], pop=pop, ivs=stars(r))
              for r in subsets([b, c, d, x], 2, 3)[:rng.choice([3, 3, 4])]]
    elif family == "twin_children":  # P(Y@(X,Z), Y@(X,W), ...): same-named children, each with >= 2 subscripts
        ws = subsets([b, c, d, x], 2, 3)[:rng.choice([2, 3, 3])]
        kids = [cfv(a, [[n, rng.choice(["m", "p"])] for n in r], rng.choice(["n", "n", "m"])) for r in ws]
        rng.shuffle(kids)
        leaf = mk_leaf(kids, pop=pop)
        kids2 = list(kids)
        rng.shuffle(kids2)
        fs = [leaf, mk_leaf(kids2[:-1] or kids2, pop=pop), mk_leaf([a], ivs=[[b, "m"], [c, "m"]])]
    elif family == "many_ivs":      # 3-4 interventions with mixed stars, siblings differing in one star / one name
        base = [[n, rng.choice(["m", "p"])] for n in [b, c, d, x][:rng.choice([3, 4])]]
        fs = [mk_leaf([a], pop=pop, ivs=base)]
        for _ in range(rng.choice([2, 3])):
            v = [list(i) for i in base]
            k = rng.randrange(len(v))
            if rng.random() < 0.6:
                v[k][1] = "p" if v[k][1] == "m" else "m"
            else:
                v.pop(k)
            fs.append(mk_leaf([a], pop=pop, ivs=v))
    elif family == "many_ranges":   # sums with 3-4 ranges over sibling summands
        r = [plain(n) for n in sorted([b, c, d, x][:rng.choice([3, 4])])]
        fs = [["sum", r, mk_leaf([a], [b, c, d])], ["sum", r, mk_leaf([a], [b, c, x])], ["sum", r[:-1], mk_leaf([a], [b, c, d])],
              ["sum", r[1:], mk_leaf([a], [b, c, d])]][:rng.choice([3, 4])]
    else:                           # sums over multi-world joints (the shape of seed C11c)
        fs = [struct_mw_sum(rng, n_names, wrap="none", pop=pop)[0] for _ in range(3)]
    rng.shuffle(fs)
    e = ["prod"] + _nest(rng, fs)
    k = rng.random()
    if k < 0.2:
        e = ["frac", e, rng.choice(fs)]
    elif k < 0.3:
        e = ["sum", [plain(x), plain(d)], e]
    return e, f"setorder:{family}"


# --------------------------------------------------------------------------------------------- wide leaves, ordering shapes
#
# The type-directed generator caps a WellScoped leaf at 3 children, 2 parents, 2 interventions and the pool at 5 names; an
# ordering is always a duplicate-free list of PLAIN variables covering every name.  New streams (the distribution of the
# generators above is unchanged): wide leaves, and the other admissible shapes of canonicalize's `ordering` argument.

def wide_leaf(rng: random.Random, n_names=8, pop=None, joint=False):
    """a WellScoped single-world leaf with 4-6 children and/or 3-4 parents and/or 3-4 interventions (mixed stars)"""
    names = list(range(n_names))
    rng.shuffle(names)
    shape = rng.choice(["children", "parents", "ivs", "all"])
    k = rng.choice([4, 5, 6]) if shape in ("children", "all") else rng.choice([1, 2, 3])
    m = 0 if joint else (rng.choice([3, 4]) if shape in ("parents", "all") else rng.choice([0, 1]))
    w = rng.choice([3, 4]) if shape in ("ivs", "all") else rng.choice([0, 0, 1])
    k = min(k, n_names - 1)
    m = min(m, n_names - k)
    w = min(w, n_names - k - m)
    ch, pa, sub = names[:k], names[k:k + m], names[k + m:k + m + w]
    ivs = [[x, rng.choice(["m", "m", "p"])] for x in sub]
    mark = lambda: "m" if rng.random() < 0.12 else "n"  # noqa: E731
    children = [cfv(x, ivs, mark()) for x in ch]
    parents = [cfv(x, ivs, mark()) for x in pa]
    rng.shuffle(children)
    rng.shuffle(parents)
    return mk_leaf(children, parents, pop=pop)


def struct_wide_expr(rng: random.Random, n_names=None):
    """(expression, label): wide leaves under Sums in every range mode, in products / fractions, conditional"""
    n_names = n_names or rng.choice([6, 7, 8, 9])
    for _ in range(20):
        pop = rng.choice([None, None, POPS[0]])
        k = rng.random()
        if k < 0.45:
            leaf = wide_leaf(rng, n_names, pop=pop, joint=True)
            ch = [int(v[1]) for v in _leaf_parts(leaf)[0]]
            others = [n for n in range(n_names) if n not in _leaf_all_names(leaf)] or [n_names]
            mode = rng.choice(SUM_MODES)
            if len(ch) < 2 and mode in ("subset", "partial"):
                mode = "equal"
            if mode == "equal":
                r = list(ch)
            elif mode == "superset":
                r = list(ch) + others[:1]
            elif mode == "subset":
                r = rng.sample(ch, rng.randint(1, len(ch) - 1))
            elif mode == "partial":
                r = rng.sample(ch, rng.randint(1, len(ch) - 1)) + others[:1]
            else:
                r = others[:rng.choice([1, 2])]
            if len(r) > 4:
                r = r[:4] if mode != "equal" else r
            e = ["sum", [plain(n) for n in sorted(set(r))], leaf]
            w = rng.random()
            if w < 0.25:
                e = ["prod", e, wide_leaf(rng, n_names, pop=pop)]
            elif w < 0.45:
                e = ["frac", e, mk_leaf([ch[0]], pop=pop)]
            lab = f"wide:sum:{mode}"
        elif k < 0.75:
            fs = [wide_leaf(rng, n_names, pop=rng.choice([None, pop])) for _ in range(rng.choice([2, 2, 3]))]
            e = rng.choice([["prod"] + fs, ["frac", fs[0], fs[1]], ["frac", ["prod"] + fs, fs[0]]])
            lab = "wide:prod"
        else:
            leaf = wide_leaf(rng, n_names, pop=pop)
            pa = [int(v[1]) for v in _leaf_parts(leaf)[1]]
            ch = [int(v[1]) for v in _leaf_parts(leaf)[0]]
            r = (rng.sample(pa, rng.randint(1, len(pa))) if pa and rng.random() < 0.6 else rng.sample(ch, 1))
            e = ["sum", [plain(n) for n in sorted(set(r))], ["prod", leaf, mk_leaf([r[0]])]]
            lab = "wide:cond"
        if well_scoped(e):
            return e, lab
    return wide_leaf(rng, n_names), "wide:leaf"


def leaf_sizes(e):
    """(max children, max parents, max interventions) over the leaves of `e` (generator-distribution tags)"""
    c = p = i = 0
    for t in subterms(e):
        if isinstance(t, list) and t[0] in ("P", "PP"):
            cs, ps = _leaf_parts(t)
            c, p = max(c, len(cs)), max(p, len(ps))
            i = max([i] + [len(v[4]) for v in list(cs) + list(ps)])
    return c, p, i


ORDERING_SHAPES = ("events_only", "cf_elems", "dups")


def rand_ordering_shape(rng: random.Random, e, kind, n_names=None):
    """an ordering (encoded variables) of one of the shapes that `rand_ordering` never produces; all cover the event names.
    events_only: exactly the names in event position (plus a few unrelated ones) - names that occur only as subscripts or
                 only as Sum ranges are omitted (the canonicaliser looks up event variables only);
    cf_elems:    elements that are counterfactual / value-marked variables or Intervention objects (Sequence[str | Variable]
                 admits them; canonical_expr_equal itself passes get_variables()); the level table is keyed by NAME;
    dups:        repeated elements (ensure_ordering de-duplicates through a set; not an 'ordering' in the documented sense:
                 callers treat it as malformed - 'raises or is right')"""
    ev = sorted(event_names(e))
    alln = sorted(set(all_names(e)) | {n for n in range(n_names or 0) if rng.random() < 0.3})
    if kind == "events_only":
        extra = [n for n in range((n_names or 0) + 2) if n not in alln and rng.random() < 0.3]
        out = [plain(n) for n in ev + extra]
    elif kind == "cf_elems":
        out = []
        for n in alln:
            k = rng.random()
            others = [m for m in alln if m != n]
            if k < 0.3 and others:
                out.append(cfv(n, [[rng.choice(others), rng.choice(["m", "p"])]], rng.choice(["n", "n", "m"])))
            elif k < 0.45:
                out.append(["v", n, rng.choice(["m", "p"]), "1", []])      # -X / +X as the DSL builds them
            elif k < 0.55:
                out.append(["v", n, rng.choice(["m", "p"]), "0", []])
            else:
                out.append(plain(n))
            if k < 0.3 and rng.random() < 0.4:
                out.append(plain(n))      # Y @ X next to Y: two elements with one name
    else:
        out = [plain(n) for n in alln]
        for _ in range(rng.choice([1, 1, 2])):
            if out:
                out.insert(rng.randrange(len(out) + 1), list(rng.choice(out)))
    rng.shuffle(out)
    return out
